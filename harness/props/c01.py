"""C01 - v1 piece string is the BEP 3 hashing of exactly the files on disk."""
import os

from harness import gen, refspec
from harness.common import Blob, Driver, Run, hx, quiet, sandbox, use_repo, write_tree

RULE = ("trees of 1-6 files (depth<=3, hostile names), sizes from boundary classes of block "
        "16384 and pl in {16K,32K,64K,128K}; distinct by (pl, per-file (size%B,size%pl,"
        "size//pl)); non-trivial when >=2 files and a piece straddles a file boundary, or a "
        "file is empty, or the last piece is short; thorough adds the exhaustive two-file "
        "grid of size classes; plus 'the same path made into a torrent twice by one process, the "
        "tree changed in between' (files added / removed / resized / replaced below the first "
        "level and at it; fixed shapes and random earlier states), judged on the later metafile")


def observe(tf, root, pl, via_cli, out):
    """Project a created v1 metafile to what C01 talks about."""
    import pyben
    with quiet():
        if via_cli is True:
            tf.execute(["create", root, "--piece-length", str(pl), "--prog", "0",
                        "-o", out])
        elif via_cli == "default-out":
            # the library creator without an output path: <cwd>/<name>.torrent
            from torrentfile.torrent import TorrentFile
            here = os.getcwd()
            os.chdir(os.path.dirname(out))
            try:
                written, _ = TorrentFile(path=root, piece_length=pl, progress=0).write()
            finally:
                os.chdir(here)
            out = str(written)
        else:
            from torrentfile.torrent import TorrentFile
            obj = TorrentFile(path=root, piece_length=pl, progress=0, outfile=out)
            for _ in range({"again1": 1, "again2": 2}.get(via_cli, 0)):
                obj.assemble()      # object reuse: assembling again must give the same listing
            obj.write()
    raw = open(out, "rb").read()
    meta = refspec.lenient_decode(raw)
    info = meta[b"info"]
    obs = {"raw": raw, "piece length": info.get(b"piece length"), "pieces": info.get(b"pieces"),
           "length": info.get(b"length"), "name": info.get(b"name")}
    if b"files" in info:
        obs["files"] = [(tuple(e[b"path"]), e[b"length"], e.get(b"attr"))
                        for e in info[b"files"]]
    else:
        obs["files"] = None
    return obs


def expected(files, pl, single, listed):
    """Specification: every regular file exactly once with its length (in whatever order the
    metafile lists them), BEP 3 pieces over the concatenation in that listed order.
    Returns (expected observation, files in listed order) or (None, reason)."""
    if single:
        data = files[0][1].bytes()
        return {"piece length": pl, "pieces": refspec.v1_pieces(data, pl),
                "length": len(data), "files": None}, files
    actual = {tuple(p.encode("utf8") for p in rel.split("/")): b for rel, b in files}
    if listed is None:
        return None, "no file list"
    paths = [p for p, _, _ in listed]
    if sorted(paths) != sorted(actual):
        return None, "listed paths are not exactly the regular files under the root"
    order = [("/".join(c.decode("utf8") for c in p), actual[p]) for p in paths]
    stream = b"".join(b.bytes() for _, b in order)
    return {"piece length": pl, "pieces": refspec.v1_pieces(stream, pl), "length": None,
            "files": [(p, len(actual[p]), None) for p in paths]}, order


def shape_key(files, pl, single, B=16384):
    return [pl, single] + [[len(b) % B, len(b) % pl, len(b) // pl] for _, b in
                           gen.utf8_sorted(files)]


def nontrivial(files, pl, single):
    order = gen.utf8_sorted(files)
    sizes = [len(b) for _, b in order]
    total = sum(sizes)
    if total % pl:
        return True
    if any(s == 0 for s in sizes):
        return True
    off = 0
    for s in sizes[:-1]:
        off += s
        if off % pl:
            return True
    return False


def run_case(run, tf, drv, files, pl, single, via_cli, tag, spelling=None, out_inside=None, earlier=None):
    """`earlier`: the tree that was at the same path when the same process made a torrent of it
    before (same arguments); it then changed into `files`. The metafile judged is the later one."""
    if earlier is not None:
        assert not single
        out_inside = False
    if via_cli == "default-out" and spelling:
        via_cli = False         # (the default output is relative to the working directory: absolute roots only)
    if via_cli == "default-out":
        out_inside = False
    if out_inside is None:
        out_inside = not single and tag == "random" and \
            (len(files) * 7 + pl // 16384 + len(str(spelling)) + sum(len(b) for _, b in files)) % 5 == 0
    case = {"files": [(rel, b.token()) for rel, b in files], "pl": pl, "single": single,
            "via_cli": via_cli, "gen": tag, "spelling": spelling,
            "out_inside": bool(out_inside),
            "second_run": earlier is None and tag in ("random", "replay-second") and (len(files) + pl // 16384 + sum(len(b) for _, b in files)) % 4 == 1,
            "links": __import__("harness.props.creation", fromlist=["links"]).links(files)}
    if earlier is not None:
        case["earlier"] = [(rel, b.token()) for rel, b in earlier]
        case["earlier_emptydirs"] = list(getattr(earlier, "emptydirs", ()))
    with sandbox("c01") as box:
        root = os.path.join(box, "payload")
        if single:
            root = os.path.join(box, files[0][0].split("/")[-1])
            write_tree(box, [(files[0][0].split("/")[-1], files[0][1].bytes())])
        else:
            from harness.props import creation as _cr
            _cr.materialize(box, files if earlier is None else earlier, False)
        out = os.path.join(box, "out.torrent")
        if case.get("out_inside"):
            out = os.path.join(root, "made-here.torrent")      # does not exist while the tree is read
        spelled, wd = root, None
        if case.get("spelling") and not single:
            spelled, wd = {"trail": (root + "/", None), "dot": (".", root),
                           "dotslash": ("./payload", box), "dbl": (root.replace("/payload", "//payload"), None),
                           "updown": ("payload/../payload", box)}[case["spelling"]]
        old_cwd = os.getcwd()
        try:
            if wd:
                os.chdir(wd)
            if case.get("second_run") and not single and not case.get("out_inside"):
                # an earlier run wrote the same output path; since then one payload file was
                # rewritten in place (same size, other bytes): the new metafile describes the new bytes
                rel0, blob0 = max(files, key=lambda f: len(f[1]))
                if len(blob0) and not getattr(blob0, "hardlink_of", None) and not getattr(blob0, "symlink_of", None) \
                        and not any(getattr(b, "hardlink_of", None) == rel0 or getattr(b, "symlink_of", None) == rel0
                                    for _, b in files):
                    path0 = os.path.join(root, *rel0.split("/"))
                    st = os.stat(path0)
                    with open(path0, "wb") as fd:
                        fd.write(bytes(x ^ 0x5A for x in blob0.bytes()))
                    observe(tf, spelled, pl, via_cli, out)
                    with open(path0, "wb") as fd:
                        fd.write(blob0.bytes())
                    os.utime(path0, ns=(st.st_atime_ns, st.st_mtime_ns))
            if earlier is not None:
                # the same process made a torrent of this path before; the tree has changed since
                # (mostly below the first level): the new metafile describes the tree as it is now
                observe(tf, spelled, pl, via_cli, out)
                _cr.change_tree(root, earlier, files)
            obs = observe(tf, spelled, pl, via_cli, out)
        except Exception as exc:  # the property promises a metafile for every such tree
            run.fail("impl-vs-spec", case, {"raised": repr(exc)})
            return
        finally:
            os.chdir(old_cwd)
    exp, order = expected(files, pl, single, obs["files"])
    if exp is None:
        run.fail("impl-vs-spec", case, {"field": "files", "impl": _short(obs["files"]),
                                        "why": order})
        return
    for k in ("piece length", "pieces", "length", "files"):
        if obs[k] != exp[k]:
            run.fail("impl-vs-spec", case,
                     {"field": k, "impl": _short(obs[k]), "spec": _short(exp[k])})
            break
    drv.ask("v1 0 %d %s" % (pl, " ".join(b.token() for _, b in order)),
            (case, obs["pieces"], exp["pieces"]))
    if via_cli is not True:
        from harness.props import creation as cr
        name = files[0][0].split("/")[-1] if single else "payload"
        cr.ask_createfull(drv, ("createfull", case, obs["raw"]), "v1", files, pl, single, name,
                          obs["raw"])
    run.case(shape_key(files, pl, single) + ([["earlier"] + sorted(case["earlier"])] if earlier is not None else []),
             nontrivial(files, pl, single),
             sample=case, classes=[f"files={len(files)}", f"pl={pl}",
                                   "single" if single else "dir",
                                   "cli" if via_cli is True else "lib" if not via_cli else "lib-" + via_cli]
             + (["recreated-after-change"] if earlier is not None else []))


def earlier_of(c):
    """The earlier tree of a recorded case (None when the case has none)."""
    if c.get("earlier") is None:
        return None
    from harness.props import creation as _cr
    return _cr.files_of_case({"files": c["earlier"],
                              "links": {d + "/": None for d in c.get("earlier_emptydirs", ())}})


def _short(v):
    if isinstance(v, (bytes, bytearray)):
        return hx(v)[:80] + f"..({len(v)}B)"
    return repr(v)[:300]


def big_piece(run):
    """Explicit piece length 2^25 with a file larger than 16 MiB (and larger than a piece):
    the pieces must still be cut where the recorded piece length says."""
    import pyben  # noqa
    from harness.props import creation as cr
    pl = 2 ** 25
    with sandbox("c01b") as box:
        root = os.path.join(box, "payload")
        os.makedirs(root)
        pat = Blob.rand(9, 1021).bytes()
        sizes = {"big.bin": 36 * 2 ** 20 + 5, "z-small": 1000}
        for name, n in sizes.items():
            with open(os.path.join(root, name), "wb") as fd:
                fd.write((pat * (n // 1021 + 1))[:n])
        out = os.path.join(box, "o.torrent")
        case = {"big_piece": True, "pl": pl, "sizes": sizes}
        try:
            from harness import impl
            raw = impl.create("v1", root, out, piece_length=pl)
        except Exception as exc:
            run.fail("impl-vs-spec", case, {"raised": repr(exc)})
            return
        info = refspec.lenient_decode(raw)[b"info"]
        stream = b"".join(open(os.path.join(root, n), "rb").read() for n in sorted(sizes))
        if info.get(b"piece length") != pl or bytes(info.get(b"pieces", b"")) != refspec.v1_pieces(stream, pl) \
                or [(tuple(e[b"path"]), e[b"length"]) for e in info.get(b"files", [])] != \
                [((n.encode(),), sizes[n]) for n in sorted(sizes)]:
            run.fail("impl-vs-spec", case, {"why": "pieces / files / piece length differ from BEP 3"})
        run.case(["big-piece", pl], True, sample=case, classes=["big-piece"])


def run(tier, seed, replay=None):
    tf = use_repo()
    run = Run("C01", tier, seed, RULE)
    rng = run.rng
    drv = Driver()
    B = 16384
    if replay:
        c = replay["case"]
        from harness.props import creation as _cr
        files = _cr.files_of_case(c)
        run_case(run, tf, drv, files, c["pl"], c["single"], c["via_cli"],
                 "replay-second" if c.get("second_run") else "replay",
                 spelling=c.get("spelling"), out_inside=bool(c.get("out_inside")), earlier=earlier_of(c))
    else:
        from harness.props import creation as _crc
        for files, pl, single in _crc.corner_cases():
            for via in (False, True, "again1"):
                run_case(run, tf, drv, files, pl, single, via, "corner")
        # an entry named '~' directly below a root that is spelled '.' / './payload'
        tilde = gen.FileList([("~/inside", Blob.rand(5, 20000)), ("~user", Blob.rand(6, 10)), ("a", Blob.rand(7, 16384))])
        for via in (False, True):
            for sp in ("dot", "dotslash", None):
                run_case(run, tf, drv, tilde, 16384, False, via, "corner", spelling=sp, out_inside=False)
        # the same path is made into a torrent twice by this process and the tree changes in
        # between, mostly below the first level (fixed shapes; random ones in the loop below)
        for pl in (16384, 32768):
            for label, before, after in _crc.changed_tree_shapes(pl):
                for via, sp in ((False, None), (True, None), (False, "dot")) if pl == 16384 else (("again1", None), (True, "dotslash")):
                    run_case(run, tf, drv, after, pl, False, via, "changed:" + label, spelling=sp, earlier=before)
        n = 160 if tier == "quick" else 1500
        import random as _random
        for i in range(n):
            pl = gen.pick_pl(rng)
            single = rng.random() < 0.15
            if single:
                size, _ = gen.pick_size(rng, B, pl, allow_empty=False)
                files = [(rng.choice(gen.NAMES), gen.pick_blob(rng, size))]
            else:
                files, _ = gen.tree(rng, B, pl, big=(tier != "quick"))
            run_case(run, tf, drv, files, pl, single,
                     rng.choice([True] * 6 + [False] * 11 + ["again1", "again1", "again2", "default-out", "default-out"]),
                     "random",
                     spelling=rng.choice([None, None, None, "trail", "dot", "dotslash", "dbl", "updown"]))
            # (own generator: the stream of the cases above stays what it was)
            rng2 = _random.Random(f"{seed}/changed/{i}")
            if not single and rng2.random() < 0.25:
                before = _crc.earlier_version(rng2, files)
                if before is not None:
                    run_case(run, tf, drv, files, pl, False, rng2.choice([False, False, True, "again1"]),
                             "changed:random", spelling=rng2.choice([None, None, "trail", "dot", "dotslash", "dbl", "updown"]),
                             earlier=before)
        big_piece(run)
        if tier == "thorough":
            classes = gen.size_classes(B, B)
            for pl in (B, 2 * B):
                cl = gen.size_classes(B, pl)
                for a in sorted(cl):
                    for b in sorted(cl):
                        if cl[a] + cl[b] == 0:
                            continue
                        files = [("a", Blob.rand(1, cl[a])), ("b", Blob.rand(2, cl[b]))]
                        run_case(run, tf, drv, files, pl, False, False, "grid")
    from harness.props import creation as cr
    def still_fails(c):
        probe = Run("C01", tier, seed, RULE)
        from harness.props import creation as _cr
        files = _cr.files_of_case(c)
        run_case(probe, tf, Driver(), files, c["pl"], c["single"], c["via_cli"], "shrink",
                 spelling=c.get("spelling"), out_inside=bool(c.get("out_inside")), earlier=earlier_of(c))
        return any(f.kind == "impl-vs-spec" for f in probe.failures)
    run.shrinker = still_fails
    for (case, impl_pieces, spec_pieces), _, out in cr.settle_createfull(run, drv.run()):
        run.model_checked += 1
        parts = out.split(" ")
        if parts[0] == "ERR":
            run.fail("spec-vs-ref", case, {"driver": out})
            continue
        model, lspec = parts[0], parts[1]
        if lspec != hx(spec_pieces):
            run.fail("spec-vs-ref", case, {"lean_spec": lspec[:80], "ref": hx(spec_pieces)[:80]})
        if model != hx(impl_pieces or b""):
            run.fail("impl-vs-model", case, {"correspondence": "Impl.hasherV1 (Hasher.__next__)",
                                             "model": model[:80], "impl": hx(impl_pieces or b"")[:80]})
    return run.finish()


def _blob(tok):
    base, *mods = tok.split(",")
    if base[0] == "r":
        a, b = base[1:].split(".")
        blob = Blob.rand(int(a), int(b))
    elif base[0] == "z":
        blob = Blob.zero(int(base[1:]))
    else:
        blob = Blob.hexb(bytes.fromhex(base[1:]) if base[1:] != "-" else b"")
    for m in mods:
        blob = blob.trunc(int(m[1:])) if m[0] == "t" else blob.flip(int(m[1:]))
    return blob

"""C07 - edit changes only the named fields; hash-bearing data is untouched."""
import hashlib
import os
import random

from harness import impl, refspec
from harness.common import Driver, MachineryError, Run, hx, sandbox
from harness.props import metas

RULE = ("metafiles v1/v2/hybrid with every subset of optional fields; sequences of 1..8 "
        "(thorough ..20) edit requests over the six editable fields, each unnamed / set "
        "(string or list, list values also with blanks / tabs / commas inside one url, alone as "
        "the option's only value and among others) / cleared, through edit_torrent and through "
        "`torrentfile edit`; "
        "after every request the file must equal the previous one with exactly the named "
        "fields changed (raw info bytes identical when only tracker/seed fields are named); "
        "distinct by (version, present optional fields, request shapes); non-trivial when "
        ">= 2 requests with at least one clearing or unnamed field")

FIELDS = ["announce", "url-list", "httpseeds", "comment", "source", "private"]
HASH_BEARING = [b"files", b"file tree", b"pieces", b"piece length", b"name", b"meta version",
                b"length"]
LIST_FIELDS = ("announce", "url-list", "httpseeds")
# URLs that contain a separator character INSIDE the one value: blanks (unencoded, in the path and
# in the query), a tab, Unicode spaces, leading / trailing blanks, commas and semicolons.  Given as
# an element of a list (library) or as one command-line argument, such a value is ONE url.
SPACED = ["http://seed.example/pub/My Files/", "http://x.y/a b", "http://t.example/a\tb",
          "http://t.example/q?name=a b&n=1", "http://t.example/two  blanks", "http://t/nb\u00a0sp",
          "http://t/ideo\u3000graphic", "http://t/en\u2003quad", " http://lead.example/a",
          "http://trail.example/a ", "http://t/a b c d", "http://t.example/x?parts=1,2,3",
          "http://t.example/a, http://t.example/b", "http://t.example/a;b c"]


def _one(field, url):
    req = {f: None for f in FIELDS}
    req[field] = [url]
    return req


def _req(**kw):
    req = {f: None for f in FIELDS}
    for k, v in kw.items():
        req[k.replace("_", "-")] = v
    return req


# Fixed shapes every run includes (case seeds -4 ...): list options given EXACTLY ONE value that
# contains blanks / tabs / other separators - each of the three options alone and in combination,
# through the command line and through the library, followed by edits of other fields (the value
# written must stay what it was).  (version, [(request, via command line), ...])
FIXED = {
    -4: (1, [(_one("announce", SPACED[1]), True), (_one("url-list", SPACED[0]), True),
             (_one("httpseeds", SPACED[2]), True), (_req(comment="later edit"), True),
             (_one("announce", SPACED[3]), False), (_one("url-list", SPACED[2]), False),
             (_one("httpseeds", SPACED[0]), False), (_req(source="S"), False)]),
    -5: (2, [(_req(announce=[SPACED[0]], url_list=[SPACED[1]], httpseeds=[SPACED[3]]), True),
             (_req(comment="c", private="1"), True),
             (_req(announce=[SPACED[2]], url_list=[SPACED[5]], httpseeds=[SPACED[6]]), False),
             (_req(announce=[SPACED[8]], httpseeds=[SPACED[9]]), True),
             (_req(url_list=""), True)]),
    -6: (3, [(_req(announce=[SPACED[10]], url_list=["http://w/one", "http://w/two"]), True),
             (_req(url_list=[SPACED[4]], httpseeds=["http://h/1", SPACED[1]]), True),
             (_req(announce=["http://t.example/announce", SPACED[0]], httpseeds=[SPACED[7]]), True),
             (_req(announce=[SPACED[11]], url_list=[SPACED[12]], httpseeds=[SPACED[13]]), True),
             (_req(announce="", comment="x"), True)]),
    -7: (1, [(_one("url-list", SPACED[0]), True)]),
    -8: (2, [(_one("httpseeds", SPACED[0]), True)]),
    -9: (3, [(_one("announce", SPACED[0]), True)]),
}


def gen_request(rng):
    """field -> None (unnamed) | "" (cleared) | str | list"""
    req = {}
    for f in FIELDS:
        r = rng.random()
        if r < 0.5:
            req[f] = None
        elif r < 0.65:
            req[f] = ""
        elif f in ("announce", "url-list", "httpseeds"):
            pool = [u for u in metas.URLS if not any(ch.isspace() for ch in u)] + \
                ["http://t/it's", 'http://t/"quoted"', "http://t/back\\slash", "http://t/a'b'c"]
            urls = rng.sample(pool, rng.randrange(1, 4))
            req[f] = urls if rng.random() < 0.6 else " ".join(urls)
            if isinstance(req[f], list) and rng.random() < 0.3:
                # list form only: values with blanks / tabs inside (a string value is, by the
                # library's convention, a white-space separated list, so it cannot carry them)
                k = rng.randrange(len(urls))
                req[f] = urls[:k] + [rng.choice(SPACED)] + (urls[k + 1:] if rng.random() < 0.6 else [])
                if rng.random() < 0.5:
                    req[f] = req[f][k:k + 1]
        elif f == "private":
            req[f] = "1"
        else:
            req[f] = rng.choice(metas.WORDS)
    if all(v is None for v in req.values()):
        req["comment"] = "c"
    return req


def cli_expressible(req):
    return req["private"] != "" or True


def apply_request_impl(path, req, via_cli):
    if not via_cli:
        return impl.edit(path, {k: v for k, v in req.items()})
    argv = ["edit", path]
    for f, flag in (("announce", "--tracker"), ("url-list", "--web-seed"),
                    ("httpseeds", "--http-seed")):
        v = req[f]
        if v is None:
            continue
        if v == "":
            argv += [flag, ""]          # an empty argument clears the field
            continue
        argv += [flag] + (v if isinstance(v, list) else v.split())
    for f, flag in (("comment", "--comment"), ("source", "--source")):
        if req[f] is not None:
            argv += [flag, req[f]]
    if req["private"] == "":
        return impl.edit(path, {k: v for k, v in req.items()})
    if req["private"]:
        argv += ["--private"]
    import random as _r
    return impl.cli(_r.choice([[], ["-v"], ["-v"], ["-q"]]) + argv)


def spec_apply(meta, req):
    """Reference: the previous metafile with exactly the named fields changed.
    Returns (expected dict, keys whose fate is not judged)."""
    out = {k: (dict(v) if k == b"info" else v) for k, v in meta.items()}
    info = out[b"info"]
    unjudged = set()

    def enc(s):
        return s.encode("utf8")
    for f, v in req.items():
        if v is None:
            continue
        key = enc(f)
        if f in ("comment", "source"):
            if v == "":
                (out if key in out else info).pop(key, None)
            else:
                info[key] = enc(v)
        elif f == "private":
            if v == "":
                (out if key in out else info).pop(key, None)
            else:
                info[key] = 1
        elif f == "announce":
            if v == "":
                out.pop(b"announce", None)
                unjudged.add(b"announce-list")
            else:
                lst = v if isinstance(v, list) else v.split()
                out[b"announce"] = enc(lst[0])
                out[b"announce-list"] = [[enc(u) for u in lst]]
        else:
            if v == "":
                out.pop(key, None)
            else:
                lst = v if isinstance(v, list) else v.split()
                out[key] = [enc(u) for u in lst]
    return out, unjudged


def _canonical(raw):
    try:
        refspec.strict_decode(raw)
        return True
    except refspec.BErr:
        return False


def run_case(run, drv, case_seed, max_len):
    rng = random.Random(case_seed)
    with sandbox("c07") as box:
        fixed = FIXED.get(case_seed)
        if fixed:
            m = metas.make_meta(rng, box, version=fixed[0])
        elif case_seed < 0:
            # fixed shapes every run includes: a foreign metafile whose info dictionary is NOT in
            # sorted key order, edited by requests that name only trackers / seeds
            rng.force_unsorted = True
            m = foreign_meta(rng, box)
        else:
            m = foreign_meta(rng, box) if rng.random() < 0.3 else metas.make_meta(rng, box)
        case = {"case_seed": case_seed, "version": m["version"], "opts": m["opts"],
                "creator": m["creator"], "requests": []}
        nreq = rng.randrange(1, max_len + 1)
        if fixed:
            nreq = len(fixed[1])
        shapes = []
        spaced_single = set()
        for step in range(nreq):
            req = gen_request(rng)
            if case_seed < 0 and step == 0:
                req = {"announce": ["http://new.tracker/a"], "url-list": None, "httpseeds": ["http://h/1"],
                       "comment": None, "source": None, "private": None}
            via_cli = rng.random() < 0.4
            if fixed:
                req, via_cli = dict(fixed[1][step][0]), fixed[1][step][1]
            for f in LIST_FIELDS:
                if isinstance(req[f], list) and len(req[f]) == 1 and any(c.isspace() for c in req[f][0]):
                    spaced_single.add(("cli:" if via_cli else "lib:") + f)
            raw0 = open(m["path"], "rb").read()
            before = refspec.lenient_decode(raw0)
            case["requests"].append({"req": req, "cli": via_cli})
            if rng.random() < 0.15:
                # a leftover of an interrupted earlier edit sits next to the metafile
                case["requests"][-1]["stale_part"] = True
                with open(m["path"] + ".part", "wb") as fd:
                    fd.write(raw0[:len(raw0) // 2])
            try:
                apply_request_impl(m["path"], dict(req), via_cli)
            except Exception as exc:
                run.fail("impl-vs-spec", dict(case, step=step), {"raised": repr(exc)})
                break
            raw1 = open(m["path"], "rb").read()
            if not via_cli and rng.random() < 0.3:
                # a caller that keeps ONE request dictionary and applies it to a second copy of
                # the same metafile: both copies must end up equal and the request unchanged
                twin_a, twin_b = os.path.join(box, "twin-a.torrent"), os.path.join(box, "twin-b.torrent")
                for t in (twin_a, twin_b):
                    with open(t, "wb") as fd:
                        fd.write(raw0)
                shared = impl.SharedRequest(req)
                try:
                    impl.edit(twin_a, shared)
                    impl.edit(twin_b, shared)
                    same = open(twin_a, "rb").read() == open(twin_b, "rb").read() == raw1
                except Exception as exc:
                    same = repr(exc)
                if same is not True or dict(shared) != dict(req):
                    run.fail("impl-vs-spec", dict(case, step=step),
                             {"why": "a request dictionary used for two metafiles: results differ or the "
                                     "caller's dictionary was changed", "equal": same,
                              "request_after": {k: repr(v) for k, v in shared.items()}})
                    break
            after = refspec.lenient_decode(raw1)
            want, unjudged = spec_apply(before, req)
            named_info = any(req[f] is not None for f in ("comment", "source", "private"))
            bad = None
            for k in set(want) | set(after):
                if k in unjudged or k == b"info":
                    continue
                if want.get(k) != after.get(k):
                    bad = f"top-level key {k!r}"
            for k in set(want[b"info"]) | set(after[b"info"]):
                if want[b"info"].get(k) != after[b"info"].get(k):
                    bad = f"info key {k!r}"
            if not named_info and refspec.info_span(raw0) != refspec.info_span(raw1):
                bad = "info bytes changed although only tracker/seed fields were named"
            for k in HASH_BEARING:
                if before[b"info"].get(k) != after[b"info"].get(k):
                    bad = f"hash-bearing key {k!r} changed"
            if before.get(b"piece layers") != after.get(b"piece layers"):
                bad = "piece layers changed"
            if not bad and _canonical(raw0):
                # "the file equals the original with each named field set": byte for byte, i.e.
                # the canonical encoding of the expected dictionary (the original was canonical)
                exp = dict(want)
                for k in unjudged:
                    exp.pop(k, None)
                    if k in after:
                        exp[k] = after[k]
                if refspec.encode(exp) != raw1:
                    bad = "the edited file is not the original with the named fields changed (bytes differ " \
                          "although every decoded value is as expected: key order / encoding)"
            if bad:
                run.fail("impl-vs-spec", dict(case, step=step), {"why": bad})
                break
            drv.ask("edit " + hx(raw0) + " " + " ".join(_tok(req[f]) for f in ("comment", "source", "private", "announce", "url-list", "httpseeds")),
                    (case, step, raw1))
            shapes.append(sorted((f, "clear" if v == "" else type(v).__name__)
                                 for f, v in req.items() if v is not None))
    run.case([m["version"], sorted(m["opts"]), shapes],
             nreq >= 2 and any("" in r["req"].values() or None in r["req"].values()
                               for r in case["requests"]),
             sample=case, classes=[f"v{m['version']}", f"requests={nreq}"] +
             [f"single-value-with-blank:{x}" for x in sorted(spaced_single)])


def foreign_meta(rng, box):
    """A metafile written by another tool: falsy optional values (private = 0), unknown keys,
    a zero-length single file, optional fields present/absent in every combination."""
    pl = 16384
    version = rng.choice([1, 2, 3])
    single = rng.random() < 0.5
    empty = single and version == 1 and rng.random() < 0.4
    files = [(("f",), b"" if empty else b"z" * rng.choice([1, pl, pl + 9]))] if single else \
        [(("a",), b"A" * 100), (("d", "b"), b"B" * (pl + 1))]
    info_extra = {}
    if rng.random() < 0.6:
        info_extra["private"] = rng.choice([0, 0, 1])
    if rng.random() < 0.4:
        info_extra["source"] = rng.choice(["", "src"])
    if rng.random() < 0.4:
        info_extra["comment"] = rng.choice(["", "c"])
    if rng.random() < 0.3:
        info_extra["x-ext"] = rng.choice([0, "", [], {}])
    extra = {"created by": "other tool"}
    if rng.random() < 0.5:
        extra["announce"] = "http://t/a"
    if rng.random() < 0.3:
        extra["announce-list"] = [["http://t/a"], ["http://t/b"]]
    if rng.random() < 0.3:
        extra["url-list"] = ["http://w/1"]
    if rng.random() < 0.2:
        extra["nodes"] = []
    meta = refspec.ref_metafile("f" if single else "dir", files, pl, version, single=single,
                                trailing_pad=True, with_length=True, extra=extra,
                                info_extra=info_extra)
    raw = refspec.encode(meta)
    if rng.random() < 0.4 or getattr(rng, "force_unsorted", False):
        # written by a tool that does not sort: the info dictionary keeps its own key order, and
        # an edit that names no info field must leave those bytes (hence the info-hash) alone
        items = list(meta["info"].items())
        rng.shuffle(items)
        meta["info"] = dict(items)
        top = list(meta.items())
        rng.shuffle(top)
        raw = refspec.encode_ordered(dict(top))
    path = os.path.join(box, "foreign.torrent")
    with open(path, "wb") as fd:
        fd.write(raw)
    return {"raw": raw, "path": path, "version": version, "opts": {k: True for k in
            sorted(info_extra) + sorted(extra)}, "creator": "foreign", "single": single}


def _tok(v):
    if v is None:
        return "_"
    if v == "":
        return "E"
    if isinstance(v, list):
        return "L" + ";".join(u.encode("utf8").hex() for u in v)
    return "S" + v.encode("utf8").hex()


def run(tier, seed, replay=None):
    run = Run("C07", tier, seed, RULE)
    drv = Driver()
    seeds = [replay["case"]["case_seed"]] if replay else \
        [-1, -2, -3] + sorted(FIXED, reverse=True) + [run.rng.randrange(10 ** 9) for _ in range(100 if tier == "quick" else 800)]
    for s in seeds:
        run_case(run, drv, s, 8 if tier == "quick" else 20)
    for (case, step, raw1), req, out in drv.run():
        if out.startswith("ERR"):
            if os.environ.get("VERIF_DEV") and "bad-op" in out:
                continue
            raise MachineryError(f"driver: {req[:40]} -> {out[:100]}")
        run.model_checked += 1
        if out.strip() != hx(raw1):
            run.fail("impl-vs-model", dict(case, step=step),
                     {"correspondence": "Impl.editTorrent", "model": out[:80], "impl": hx(raw1)[:80]})
    return run.finish()

"""
Shared engine of the rebuild properties C13, C14, C19: torrents, search directories with
scattered originals / unrelated files / decoys, destinations, verification of the result
with the reference verifier (never with torrentfile itself).
"""
import os
import random

from harness import gen, impl, refspec
from harness.common import Blob, write_tree
from harness.props import creation as cr

B = 16384
METADIR = ["metas"]
FNAMES = ["a", "b", "x.bin", "data", "é", "a b", "f", "cafe\u0301.txt", "A\u030a", "\u212b.bin",   # incl. non-NFC names
          "notes ", "etc...", " lead", "dot."]                                               # trailing dots / blanks
DNAMES = ["d", "e", "sub", "ü", "u\u0308", "Vol.", "trail "]


def gen_torrent(rng, tag, tier, version=None, allow_dup_names=True):
    """A small payload with possibly repeated file names in different directories."""
    pl = rng.choice([16384, 16384, 32768])
    version = version or rng.choice([1, 2, 3])
    single = rng.random() < 0.2
    if single:
        size, _ = gen.pick_size(rng, B, pl, allow_empty=False, big=False)
        files = [(rng.choice(FNAMES) + tag, gen.pick_blob(rng, size))]
        if rng.random() < 0.2:
            # one piece whose digest is valid UTF-8 (decoders that return text hand it back as str)
            files = [(files[0][0], Blob.hexb(gen.UTF8_DIGEST[0 if version == 1 else rng.randrange(2)]))]
    else:
        n = rng.choice([1, 2, 3, 3, 4, 5])
        paths = set()
        if n >= 2 and rng.random() < 0.3:
            fn = rng.choice(FNAMES)
            paths.update({"cd1/" + fn, "cd2/" + fn})
        while len(paths) < n:
            depth = rng.choice([0, 0, 1, 1, 2])
            comps = [rng.choice(DNAMES) for _ in range(depth)] + [rng.choice(FNAMES)]
            p = "/".join(comps)
            if any(q == p or q.startswith(p + "/") or p.startswith(q + "/") for q in paths):
                continue
            paths.add(p)
        files = []
        twin = {}
        for p in sorted(paths):
            size, _ = gen.pick_size(rng, B, pl, allow_empty=True, big=False)
            fname = p.split("/")[-1]
            if fname in twin and rng.random() < 0.7:
                size = twin[fname]          # same name, same size, different bytes elsewhere
            twin[fname] = size
            files.append((p, Blob.rand(rng.randrange(1, 40), size)))
        if len(files) >= 2 and rng.random() < 0.2:
            k = rng.randrange(len(files))                  # an empty file in a random position
            files[k] = (files[k][0], Blob.rand(1, 0))
        if all(len(b) == 0 for _, b in files):
            files[0] = (files[0][0], Blob.rand(5, pl + 1))
    # torrent names that look like something else to path handling: leading dots / dashes,
    # blanks, a trailing dot, a backslash (all ordinary POSIX names)
    name = (rng.choice(["t", "t", "t", ".t", "..t", "-t", "t.", ". t", ".hidden.", "t\\u", "~t"]) + tag) \
        if not single else files[0][0]
    if single and rng.random() < 0.3:
        name = rng.choice([".", "..", "-", "~", ". "]) + name
        files = [(name, files[0][1])]
    if not single and rng.random() < 0.12:
        files = [(name + "/" + p, b) for p, b in files]      # Album/Album/...
    elif not single and version != 2 and rng.random() < 0.08:
        # a directory whose only entry is a file of the same name (T/T): v1 and hybrid metafiles
        # tell it from the single file T by their 'files' list; a pure v2 metafile cannot
        # (BEP 52 gives both the same file tree), so it is not generated for version 2
        files = [(name, next((b for _, b in files if len(b)), files[0][1]))]
    t = {"name": name, "files": [(p, b.token()) for p, b in files], "pl": pl,
         "version": version, "single": single,
         "source": rng.choice(["own", "own", "ref"])}
    if not single and version != 1 and t["source"] == "own" and rng.random() < 0.3:
        # directories without files: torrentfile's v2 / hybrid creators record them as `name: {}`
        taken = {p.split("/")[0] for p, _ in files}
        t["emptydirs"] = [d for d in rng.sample(["0-artwork", "Aa", "_empty/inner", "zz-last"], 2) if d.split("/")[0] not in taken]
    if version == 1 and t["source"] == "own" and not single and rng.random() < 0.3:
        t["create_opts"] = {"align": True}      # v1 with BEP 47 padding entries
    return t


def torrent_files(t):
    return [(p, cr.blob_from_token(tok)) for p, tok in t["files"]]


def write_metafile(box, t, idx):
    """Materialise the payload temporarily to create the metafile, then remove it."""
    import shutil
    files = torrent_files(t)
    stage = os.path.join(box, f"stage{idx}")
    os.makedirs(stage)
    if t["single"]:
        write_tree(stage, [(t["name"], files[0][1].bytes())])
    else:
        write_tree(os.path.join(stage, t["name"]), [(p, b.bytes()) for p, b in files])
        for d in t.get("emptydirs", []):
            os.makedirs(os.path.join(stage, t["name"], *d.split("/")), exist_ok=True)
    root = os.path.join(stage, t["name"])
    mdir = os.path.join(box, METADIR[0])
    os.makedirs(mdir, exist_ok=True)
    mpath = os.path.join(mdir, f"m{idx}.torrent")
    if t["source"] == "own":
        kind = {1: "v1", 2: "a2", 3: "a3"}[t["version"]]
        raw = impl.create(kind, root, mpath, piece_length=t["pl"], **t.get("create_opts", {}))
    else:
        order = gen.utf8_sorted(files) if t["version"] == 1 else gen.v2_sorted(files)
        ref = refspec.ref_metafile(
            t["name"], [((t["name"],) if t["single"] else tuple(p.split("/")), b.bytes())
                        for p, b in order], t["pl"], t["version"], single=t["single"],
            trailing_pad=True, with_length=True, extra={"created by": "ref"})
        raw = refspec.encode(ref)
        with open(mpath, "wb") as fd:
            fd.write(raw)
    shutil.rmtree(stage)
    return mpath, raw


def scatter(rng, box, torrents, decoys="safe", ndirs=None, clash=False):
    """Place every original file somewhere in the search directories under its own file name,
    plus unrelated files and decoys. Returns (search dirs, description).
    clash: some directories on the way to the files are named like files the torrents list
    (sdir/k3_0/data/src/<file>); the first component stays unique so nothing collides."""
    wanted = sorted({p.split("/")[-1] for t in torrents for p, _ in t["files"]}) if clash else []
    ndirs = ndirs or rng.choice([1, 2, 3])
    # names that are prefixes of one another (disk1 / disk10 / disk1-extra)
    sdirs = [os.path.join(box, n) for n in ["disk1", "disk10", "disk1-extra"][:ndirs]]
    for s in sdirs:
        os.makedirs(s)
    placed = []
    counter = [0]

    def spot(sdir):
        counter[0] += 1
        depth = rng.choice([0, 1, 2, 3])
        comps = [f"k{counter[0]}_{i}" for i in range(depth)]
        if wanted and rng.random() < 0.6:
            comps = [f"k{counter[0]}_0"] + [rng.choice(wanted) for _ in range(rng.choice([1, 1, 2]))]
        return os.path.join(sdir, *comps)
    for t in torrents:
        for p, blob in torrent_files(t):
            fname = p.split("/")[-1]
            data = blob.bytes()
            home = rng.randrange(ndirs)
            # every placement gets its own directory so equal names never collide
            d = spot(sdirs[home])
            os.makedirs(d, exist_ok=True)
            while os.path.exists(os.path.join(d, fname)):
                d = os.path.join(d, "n")
                os.makedirs(d, exist_ok=True)
            with open(os.path.join(d, fname), "wb") as fd:
                fd.write(data)
            placed.append(("orig", os.path.join(d, fname)))
            if decoys != "none" and not data and rng.random() < 0.7:
                dd = os.path.join(sdirs[0], f"a0-first-{counter[0]}")     # enumerated early
                os.makedirs(dd, exist_ok=True)
                if not os.path.exists(os.path.join(dd, fname)):
                    with open(os.path.join(dd, fname), "wb") as fd:
                        fd.write(b"not empty at all, although the torrent says length 0")
                    placed.append(("size", os.path.join(dd, fname)))
            if decoys != "none" and data and rng.random() < 0.5:
                kind = rng.choice(["size", "safe", "total"]) if decoys == "safe" else decoys
                dd = spot(sdirs[rng.randrange(ndirs)])
                os.makedirs(dd, exist_ok=True)
                target = os.path.join(dd, fname)
                if os.path.exists(target):
                    continue
                if kind == "size":
                    bad = data + b"!"
                elif kind == "total":
                    bad = bytes(x ^ 0xFF for x in data)
                else:           # differs in the very first byte (hence in the first piece)
                    bad = bytes([data[0] ^ 0x55]) + data[1:]
                with open(target, "wb") as fd:
                    fd.write(bad)
                placed.append((kind, target))
    for s in sdirs:
        for i in range(rng.randrange(0, 3)):
            d = spot(s)
            os.makedirs(d, exist_ok=True)
            with open(os.path.join(d, f"unrelated{i}.txt"), "wb") as fd:
                fd.write(b"unrelated %d" % i)
    return sdirs, placed


def verify_dest(raw, t, dest):
    """Reference verification of dest against the metafile: list of (ok, size), and the
    list of described files missing or wrong."""
    try:
        meta = refspec.strict_decode(raw)
    except refspec.BErr:
        meta = refspec.lenient_decode(raw)
    files = torrent_files(t)
    wrong = []
    for p, blob in files:
        path = os.path.join(dest, t["name"]) if t["single"] else \
            os.path.join(dest, t["name"], *p.split("/"))
        if not os.path.isfile(path):
            wrong.append((p, "missing"))
        elif open(path, "rb").read() != blob.bytes():
            wrong.append((p, "differs"))

    def read(comps):
        path = os.path.join(dest, t["name"]) if t["single"] else \
            os.path.join(dest, t["name"], *[c.decode("utf8") for c in comps])
        if os.path.isfile(path):
            return open(path, "rb").read()
        return None
    return refspec.ref_verify(meta, read, B), wrong


# ----------------------------------------------------------------------------- model tie

def _norm(p):
    return "/" + "/".join(c for c in str(p).split("/") if c)


def _hx(s):
    if isinstance(s, str):
        s = s.encode("utf8")
    return bytes(s).hex() or "-"


def fs_tokens(root):
    """Every directory and file under `root` (plus root's ancestors as directories)."""
    ents = []
    p = root
    while p != "/":
        p = os.path.dirname(p)
        ents.append((p, None))
    for dp, _, fn in os.walk(root):
        ents.append((dp, None))
        for f in fn:
            with open(os.path.join(dp, f), "rb") as fd:
                ents.append((os.path.join(dp, f), fd.read()))
    toks = [str(len(ents))]
    for path, content in ents:
        toks.append(_hx(path))
        toks.append("d" if content is None else "h" + (content.hex() or "-"))
    return " ".join(toks)


def files_tokens(meta):
    toks = [str(len(meta.files))]
    for f in meta.files:
        root = f.get("root")
        toks += [_hx(str(f["full"])), _hx(f["filename"]),
                 ("p" if f.get("pad") else "") + str(f["length"]),
                 _hx(root) if root is not None else "none"]
    return " ".join(toks)


def filemap_tokens(fm):
    toks = [str(len(fm))]
    for k, v in fm.items():
        toks += [_hx(k), str(len(v))]
        for p, s in v:
            toks += [_hx(os.path.abspath(p)), str(s)]
    return " ".join(toks)


def rebuild_with_model(box, metafiles, sdirs, dest, drv, case):
    """Run Assembler metafile by metafile; for each, queue the Lean rebuild model (matchv1 /
    matchv2) on the same file records, filemap and filesystem, to be compared with the
    audit-hook trace (mkdir / copy operations, their targets) and the counter.
    Returns (total count, raised exception name or None)."""
    from harness import effects
    from harness.common import quiet, use_repo
    use_repo()
    from torrentfile.rebuild import Assembler
    with quiet():
        asm = Assembler(list(metafiles), list(sdirs), dest)
        if case.get("bystander"):
            # another assembler constructed afterwards and never run: it must not receive
            # (or withhold) the counts of the one that does the work
            case["_bystander"] = Assembler(list(metafiles), list(sdirs), dest + "-bystander")
    raised = None
    raws = {meta.path: open(meta.path, "rb").read() for meta in asm.metafiles}
    index_model(drv, asm, sdirs, case)
    for meta in asm.metafiles:
        extract_model(drv, meta, case)
        ds = os.path.getsize(box)
        fstok = fs_tokens(box)
        before = asm.counter
        exc = None
        with effects.traced() as tr:
            try:
                with quiet():
                    asm.rebuild(meta)
            except Exception as err:  # noqa
                exc = type(err).__name__
                raised = raised or exc
        real, realw = [], []
        for ev in tr.events:
            if ev[0] == "mkdir":
                real.append("m:" + _hx(_norm(ev[1])))
                realw.append(_hx(_norm(ev[1])))
            elif ev[0] == "copyfile":
                real.append("c:" + _hx(_norm(ev[1])))
                realw.append(_hx(_norm(ev[2])))
        if meta.meta_version == 2:
            req = "matchv2 %d %s %d %s %s %s" % (ds, _hx(os.path.abspath(dest)), meta.piece_length,
                                                 files_tokens(meta), filemap_tokens(asm.filemap), fstok)
        else:
            req = "matchv1 %d %s %d %s %s %s %s" % (ds, _hx(os.path.abspath(dest)), meta.piece_length,
                                                    _hx(meta.pieces), files_tokens(meta),
                                                    filemap_tokens(asm.filemap), fstok)
        drv.ask(req, ("match", dict(case, metafile=os.path.basename(meta.path)),
                      (asm.counter - before, real, realw, exc)))
        if len(raws[meta.path]) <= 200000:
            drv.ask("rebuildbytes %s %d %s %s %s" % (_hx(raws[meta.path]), ds, _hx(os.path.abspath(dest)),
                                                    filemap_tokens(asm.filemap), fstok),
                    ("match-bytes", dict(case, metafile=os.path.basename(meta.path)),
                     (asm.counter - before, real, realw, exc)))
    other = case.pop("_bystander", None)
    if other is not None and other.counter:
        raised = raised or f"bystander-counted-{other.counter}"
    return asm.counter, raised


def index_model(drv, asm, sdirs, case):
    """_index_contents vs Impl.indexContents: file name -> [(path, size)] in enumeration order
    (the search trees are handed over in the order os.listdir reports them)."""
    names = set()
    for meta in asm.metafiles:
        names |= set(meta.filenames)

    def stree(path):
        if os.path.isfile(path):
            return ["f", str(os.path.getsize(path))]
        entries = os.listdir(path)
        toks = ["d", str(len(entries))]
        for e in entries:
            toks += [_hx(e)] + stree(os.path.join(path, e))
        return toks
    names = sorted(names)
    req = f"index {len(names)} " + " ".join(_hx(n) for n in names) + f" {len(sdirs)} " + \
        " ".join(_hx(d) + " " + " ".join(stree(d)) for d in sdirs)
    got = ";".join(f"{_hx(k)}=" + ",".join(f"{_hx(p)}:{s}" for p, s in v) for k, v in asm.filemap.items())
    drv.ask(req, ("match-extract", dict(case, what="filemap"), got or "-"))


def extract_model(drv, meta, case):
    """Metadata.extract / _parse_tree vs Impl.extractV1* / extractV2: the file records
    (full path, file name, length, root / padding flag) derived from the metafile."""
    from harness import refspec
    raw = open(meta.path, "rb").read()
    info = refspec.lenient_decode(raw)[b"info"]
    name = info[b"name"]
    got = []
    for f in meta.files:
        tok = f"{_hx(str(f['full']))}:{_hx(f['filename'])}:{f['length']}"
        if meta.meta_version == 2:
            tok += ":" + (_hx(f["root"]) if f.get("root") is not None else "none")
        elif f.get("pad"):
            tok += ":p"
        got.append(tok)
    if meta.meta_version == 2:
        def tree_tokens(tree):
            toks = [str(len(tree))]
            for k, v in tree.items():
                toks.append(_hx(k))
                if b"" in v:
                    leaf = v[b""]
                    root = leaf.get(b"pieces root")
                    toks += ["f", str(leaf[b"length"]), _hx(root) if root is not None else "none"]
                else:
                    toks += ["d"] + tree_tokens(v)
            return toks
        req = f"extractv2 {_hx(name)} " + " ".join(tree_tokens(info[b"file tree"]))
    elif b"files" in info:
        toks = []
        for e in info[b"files"]:
            toks += [str(len(e[b"path"]))] + [_hx(c) for c in e[b"path"]] + \
                [("p" if e.get(b"attr") == b"p" else "") + str(e[b"length"])]
        req = f"extractv1 {_hx(name)} {len(info[b'files'])} " + " ".join(toks)
    else:
        req = f"extractv1s {_hx(name)} {info[b'length']}"
    tree = info.get(b"file tree", {})
    if not (meta.meta_version == 2 and b"files" in info and list(tree) == [name] and b"" in tree.get(name, {})):
        # (Impl.extractV2 takes the parsed tree alone and so cannot see the 'files' key that
        # makes a hybrid T/{T} a directory; that decision is covered by extractmeta below)
        drv.ask(req, ("match-extract", dict(case, metafile=os.path.basename(meta.path)), ",".join(got)))
    # the same records from the metafile BYTES (Impl.extractMeta . Impl.loads): covers pyben.load,
    # the version / single-file decisions and the set of file names as well
    drv.ask("extractmeta " + _hx(raw),
            ("match-meta", dict(case, metafile=os.path.basename(meta.path)),
             (f"v{meta.meta_version}", str(meta.piece_length), ",".join(got) or "-",
              sorted(_hx(n) for n in meta.filenames))))


def settle_match(run, answers):
    from harness.common import MachineryError
    rest = []
    for slot, req, out in answers:
        if isinstance(slot, tuple) and slot and slot[0] == "match-extract":
            run.model_checked += 1
            if out.strip() != (slot[2] or "-") and out.strip() != slot[2]:
                run.fail("impl-vs-model", slot[1], {"correspondence": "Impl.extractV1/V2 (file records)",
                                                    "model": out[:200], "impl": slot[2][:200]})
            continue
        if isinstance(slot, tuple) and slot and slot[0] == "match-meta":
            run.model_checked += 1
            toks = out.strip().split(" ")
            want = slot[2]
            ok = len(toks) == 4 and tuple(toks[:3]) == want[:3] and \
                sorted(t for t in toks[3].split(",") if t != "-") == want[3]
            if not ok:
                run.fail("impl-vs-model", slot[1], {"correspondence": "Impl.extractMeta (metafile bytes -> records)",
                                                    "model": out[:300], "impl": " ".join(want[:3])[:300]})
            continue
        if not (isinstance(slot, tuple) and slot and slot[0] in ("match", "match-bytes")):
            rest.append((slot, req, out))
            continue
        if slot[0] == "match-bytes" and out.startswith("ERR") and not out.startswith("ERR bad-"):
            run.model_checked += 1
            run.fail("impl-vs-model", slot[1], {"correspondence": "Impl.rebuildFromBytes", "model": out[:200]})
            continue
        kind, case, (count, real, realw, exc) = slot
        if out.startswith("ERR"):
            raise MachineryError(f"driver: {req[:60]} -> {out[:120]}")
        run.model_checked += 1
        cnt, ops, _counted, writes = out.split(" ")
        ops = [] if ops == "-" else ops.split(";")
        writes = [] if writes == "-" else writes.split(";")
        mops = [":".join(o.split(":")[:2]) for o in ops]
        if exc is None:
            ok = str(count) == cnt and mops == real and writes == realw
        else:
            k = len(real)
            ok = (mops[:k] == real and writes[:k] == realw) or \
                (mops[:k - 1] == real[:k - 1] and writes[:k - 1] == realw[:k - 1])
        if not ok:
            dec = lambda t: bytes.fromhex(t.split(":")[1]).decode("utf8", "replace") if ":" in t else t
            run.fail("impl-vs-model", case,
                     {"correspondence": "Impl.matchV1/matchV2 (operation trace, counter)" if kind == "match"
                      else "Impl.rebuildFromBytes (metafile bytes -> operation trace, counter)",
                      "model_count": cnt, "impl_count": count, "raised": exc,
                      "model_ops": [o[:2] + dec(o) for o in mops][:8],
                      "impl_ops": [o[:2] + dec(o) for o in real][:8]})
    return rest

"""
Shared engine of the rebuild properties C13, C14, C19: torrents, search directories with
scattered originals / unrelated files / decoys, destinations, verification of the result
with the reference verifier (never with torrentfile itself).
"""
import os
import random

from harness import gen, impl, refspec
from harness.common import Blob, write_tree
from harness.props import creation as cr

B = 16384
FNAMES = ["a", "b", "x.bin", "data", "é", "a b", "f"]
DNAMES = ["d", "e", "sub", "ü"]


def gen_torrent(rng, tag, tier, version=None, allow_dup_names=True):
    """A small payload with possibly repeated file names in different directories."""
    pl = rng.choice([16384, 16384, 32768])
    version = version or rng.choice([1, 2, 3])
    single = rng.random() < 0.2
    if single:
        size, _ = gen.pick_size(rng, B, pl, allow_empty=False, big=False)
        files = [(rng.choice(FNAMES) + tag, gen.pick_blob(rng, size))]
    else:
        n = rng.choice([1, 2, 3, 3, 4, 5])
        paths = set()
        while len(paths) < n:
            depth = rng.choice([0, 0, 1, 1, 2])
            comps = [rng.choice(DNAMES) for _ in range(depth)] + [rng.choice(FNAMES)]
            p = "/".join(comps)
            if any(q == p or q.startswith(p + "/") or p.startswith(q + "/") for q in paths):
                continue
            paths.add(p)
        files = []
        for p in sorted(paths):
            size, _ = gen.pick_size(rng, B, pl, allow_empty=True, big=False)
            files.append((p, Blob.rand(rng.randrange(1, 40), size)))
        if all(len(b) == 0 for _, b in files):
            files[0] = (files[0][0], Blob.rand(5, pl + 1))
    name = ("t" + tag) if not single else files[0][0]
    t = {"name": name, "files": [(p, b.token()) for p, b in files], "pl": pl,
         "version": version, "single": single,
         "source": rng.choice(["own", "own", "ref"])}
    if version == 1 and t["source"] == "own" and not single and rng.random() < 0.3:
        t["create_opts"] = {"align": True}      # v1 with BEP 47 padding entries
    return t


def torrent_files(t):
    return [(p, cr.blob_from_token(tok)) for p, tok in t["files"]]


def write_metafile(box, t, idx):
    """Materialise the payload temporarily to create the metafile, then remove it."""
    import shutil
    files = torrent_files(t)
    stage = os.path.join(box, f"stage{idx}")
    os.makedirs(stage)
    if t["single"]:
        write_tree(stage, [(t["name"], files[0][1].bytes())])
    else:
        write_tree(os.path.join(stage, t["name"]), [(p, b.bytes()) for p, b in files])
    root = os.path.join(stage, t["name"])
    mdir = os.path.join(box, "metas")
    os.makedirs(mdir, exist_ok=True)
    mpath = os.path.join(mdir, f"m{idx}.torrent")
    if t["source"] == "own":
        kind = {1: "v1", 2: "a2", 3: "a3"}[t["version"]]
        raw = impl.create(kind, root, mpath, piece_length=t["pl"], **t.get("create_opts", {}))
    else:
        order = gen.utf8_sorted(files) if t["version"] == 1 else gen.v2_sorted(files)
        ref = refspec.ref_metafile(
            t["name"], [((t["name"],) if t["single"] else tuple(p.split("/")), b.bytes())
                        for p, b in order], t["pl"], t["version"], single=t["single"],
            trailing_pad=True, with_length=True, extra={"created by": "ref"})
        raw = refspec.encode(ref)
        with open(mpath, "wb") as fd:
            fd.write(raw)
    shutil.rmtree(stage)
    return mpath, raw


def scatter(rng, box, torrents, decoys="safe", ndirs=None):
    """Place every original file somewhere in the search directories under its own file name,
    plus unrelated files and decoys. Returns (search dirs, description)."""
    ndirs = ndirs or rng.choice([1, 2, 3])
    sdirs = [os.path.join(box, f"search{i}") for i in range(ndirs)]
    for s in sdirs:
        os.makedirs(s)
    placed = []
    counter = [0]

    def spot(sdir):
        counter[0] += 1
        depth = rng.choice([0, 1, 2, 3])
        return os.path.join(sdir, *[f"k{counter[0]}_{i}" for i in range(depth)])
    for t in torrents:
        for p, blob in torrent_files(t):
            fname = p.split("/")[-1]
            data = blob.bytes()
            home = rng.randrange(ndirs)
            # every placement gets its own directory so equal names never collide
            d = spot(sdirs[home])
            os.makedirs(d, exist_ok=True)
            while os.path.exists(os.path.join(d, fname)):
                d = os.path.join(d, "n")
                os.makedirs(d, exist_ok=True)
            with open(os.path.join(d, fname), "wb") as fd:
                fd.write(data)
            placed.append(("orig", os.path.join(d, fname)))
            if decoys != "none" and data and rng.random() < 0.5:
                kind = rng.choice(["size", "safe", "total"]) if decoys == "safe" else decoys
                dd = spot(sdirs[rng.randrange(ndirs)])
                os.makedirs(dd, exist_ok=True)
                target = os.path.join(dd, fname)
                if os.path.exists(target):
                    continue
                if kind == "size":
                    bad = data + b"!"
                elif kind == "total":
                    bad = bytes(x ^ 0xFF for x in data)
                else:           # differs in the very first byte (hence in the first piece)
                    bad = bytes([data[0] ^ 0x55]) + data[1:]
                with open(target, "wb") as fd:
                    fd.write(bad)
                placed.append((kind, target))
    for s in sdirs:
        for i in range(rng.randrange(0, 3)):
            d = spot(s)
            os.makedirs(d, exist_ok=True)
            with open(os.path.join(d, f"unrelated{i}.txt"), "wb") as fd:
                fd.write(b"unrelated %d" % i)
    return sdirs, placed


def verify_dest(raw, t, dest):
    """Reference verification of dest against the metafile: list of (ok, size), and the
    list of described files missing or wrong."""
    try:
        meta = refspec.strict_decode(raw)
    except refspec.BErr:
        meta = refspec.lenient_decode(raw)
    files = torrent_files(t)
    wrong = []
    for p, blob in files:
        path = os.path.join(dest, t["name"]) if t["single"] else \
            os.path.join(dest, t["name"], *p.split("/"))
        if not os.path.isfile(path):
            wrong.append((p, "missing"))
        elif open(path, "rb").read() != blob.bytes():
            wrong.append((p, "differs"))

    def read(comps):
        path = os.path.join(dest, t["name"]) if t["single"] else \
            os.path.join(dest, t["name"], *[c.decode("utf8") for c in comps])
        if os.path.isfile(path):
            return open(path, "rb").read()
        return None
    return refspec.ref_verify(meta, read, B), wrong

"""C02 - v2 file tree, pieces roots and piece layers follow BEP 52 exactly."""
import os

from harness import impl, refspec
from harness.common import Driver, Run, hx, sandbox
from harness.props import creation as cr

RULE = ("trees of 1-6 files / single files, sizes from boundary classes of block 16384 and "
        "pl in {16K..128K}, through TorrentAssembler(v2, hybrid), TorrentFileV2, "
        "TorrentFileHybrid; plus scaled mode (BLOCK_SIZE=64 patched in the harness process, "
        "hasher classes only) sweeping block counts 1..N; distinct by (pl, sorted per-file "
        "(size%B,size%pl,size//pl)); non-trivial when some file has a block or piece count that "
        "is not a power of two, or a short last block; plus object reuse: each creator object writes, "
        "the payload changes (files resized / rewritten / added / removed so that the set of files "
        "longer than one piece changes), the object assembles and writes again - judged on both files")
KINDS = ("a2", "a3", "v2", "hy")


def nontrivial(files, pl):
    for _, b in files:
        n = len(b)
        if not n:
            continue
        blocks = -(-n // cr.B)
        pieces = -(-n // pl)
        if n % cr.B or blocks & (blocks - 1) or pieces & (pieces - 1):
            return True
    return False


def run_case(run, drv, files, pl, single, tag, kinds=KINDS):
    case = {"links": cr.links(files),
            "files": [(rel, b.token()) for rel, b in files], "pl": pl, "single": single,
            "gen": tag}
    with sandbox("c02") as box:
        root, name = cr.materialize(box, files, single)
        for kind in kinds:
            out = os.path.join(box, kind + ".torrent")
            if not single and run.rng.random() < 0.2:
                # the output file (written elsewhere) is named like an entry of the payload
                rel0 = files[run.rng.randrange(len(files))][0].split("/")
                os.makedirs(os.path.join(box, "outdir"), exist_ok=True)
                out = os.path.join(box, "outdir", run.rng.choice([rel0[-1], rel0[0]]))
                if os.path.isdir(out):
                    out = os.path.join(box, kind + ".torrent")
            try:
                spelled, prog = cr.variant(run.rng, root, single)
                raw = impl.create(kind, spelled, out, piece_length=pl, progress=prog)
            except Exception as exc:
                run.fail("impl-vs-spec", dict(case, creator=kind), {"raised": repr(exc)})
                continue
            why = cr.check_v2_view(impl.decode(raw), files, pl, single, name)
            if why:
                run.fail("impl-vs-spec", dict(case, creator=kind), {"why": why})
            cr.ask_createfull(drv, ("createfull", dict(case, creator=kind), raw), kind, files, pl,
                              single, name, raw)
        # tie to the Lean hasher models: one file of the case
        rel, blob = max(files, key=lambda f: len(f[1]))
        if len(blob):
            path = root if single else os.path.join(root, *rel.split("/"))
            got = cr.run_hashers(path, pl)
            cr.ask_hashers(drv, blob, pl, (case, rel, got, blob, pl))
    run.case(cr.shape(files, pl), nontrivial(files, pl), sample=case,
             classes=[f"files={len(files)}", f"pl={pl}", "single" if single else "dir"])


def run_rewritten(run, before, after, pl, single, tag, again=1):
    """A creator object wrote a metafile, the payload changed, the object assembled and wrote
    again: the second metafile follows BEP 52 for the payload as it is now (all four creators)."""
    case = cr.run_rewritten(run, "c02", before, after, pl, single, tag, KINDS, cr.check_v2_view, again=again)
    run.case(["rewritten", again] + cr.shape(after, pl) + cr.shape(before, pl), nontrivial(after, pl), sample=case,
             classes=[f"files={len(after)}", f"pl={pl}", "single" if single else "dir", "object-written-twice"])


def settle_model(run, drv, scaled=False):
    for (case, rel, got, blob, pl), _, out in cr.settle_createfull(run, drv.run()):
        run.model_checked += 1
        model = cr.parse_v2(out)
        if model is None:
            run.fail("spec-vs-ref", case, {"driver": out})
            continue
        data = blob.bytes()
        block = 64 if scaled else cr.B
        rroot, rlayer = refspec.v2_file(data, pl, block)
        sp = model["SP"]
        if sp[0] != rroot or (rlayer is not None and sp[1] != rlayer):
            run.fail("spec-vs-ref", case, {"file": rel, "lean_root": hx(sp[0]), "ref": hx(rroot)})
        if sp[2] != refspec.v1_pieces(data + bytes((-len(data)) % pl), pl) or \
                sp[3] != ((-len(data)) % pl or None):
            run.fail("spec-vs-ref", case, {"file": rel, "what": "hybrid pieces/padding"})
        for tag in ("V2", "HY", "F0", "F1"):
            g = tuple(bytes(x) if isinstance(x, (bytes, bytearray)) else x for x in got[tag])
            if g != model[tag]:
                run.fail("impl-vs-model", case,
                         {"correspondence": f"Impl hasher model {tag} vs hasher class",
                          "file": rel, "size": len(data)})
        # oracle at file level (spec): root, layer
        for tag in ("V2", "HY", "F0", "F1"):
            g = got[tag]
            if bytes(g[0]) != rroot or (rlayer is not None and bytes(g[1]) != rlayer):
                run.fail("impl-vs-spec", dict(case, hasher=tag, file=rel),
                         {"why": "hasher root/layer differs from BEP 52"})


def scaled_sweep(run, drv, tier):
    """BLOCK_SIZE = 64: block counts 1..N x tail variants through the hasher classes."""
    impl.set_block(64)
    try:
        from harness.common import Blob
        top = 24 if tier == "quick" else 130
        with sandbox("c02s") as box:
            for bpp in (1, 2, 4, 8):
                pl = 64 * bpp
                for blocks in range(1, top):
                    for tail in (0, 1, 63):
                        size = (blocks - 1) * 64 + (tail or 64)
                        blob = Blob.rand(7, size)
                        path = os.path.join(box, "f")
                        with open(path, "wb") as fd:
                            fd.write(blob.bytes())
                        got = cr.run_hashers(path, pl)
                        case = {"scaled": True, "B": 64, "pl": pl, "size": size}
                        drv.ask(f"v2 64 32 {bpp} {blob.token()}", (case, "f", got, blob, pl))
                        n = -(-size // 64)
                        run.case(["scaled", pl, size % 64, size % pl, size // pl],
                                 bool(size % 64 or n & (n - 1)), sample=case,
                                 classes=["scaled"])
        settle_model(run, drv, scaled=True)
    finally:
        impl.set_block(16384)


def big_piece(run):
    """Explicit piece length 2^25 and a file of more than one such piece."""
    from harness.common import Blob
    # (piece length, size): a 2^25 piece with more than one piece; a file of 2^26 bytes and more that
    # is not a whole number of blocks; more than 2048 pieces (so more than 1024 balancing roots)
    for pl, n in ((2 ** 25, 40 * 2 ** 20 + 77), (2 ** 20, 2 ** 26 + 777), (16384, 2050 * 16384 - 5)):
        _big(run, pl, n)


def _big(run, pl, n):
    from harness.common import Blob
    with sandbox("c02b") as box:
        root = os.path.join(box, "payload")
        os.makedirs(root)
        pat = Blob.rand(11, 1021).bytes()
        data = (pat * (n // 1021 + 1))[:n]
        with open(os.path.join(root, "big.bin"), "wb") as fd:
            fd.write(data)
        want_root, want_layer = refspec.v2_file(data, pl, cr.B)
        for kind in KINDS:
            case = {"big_piece": True, "pl": pl, "size": n, "creator": kind}
            try:
                raw = impl.create(kind, root, os.path.join(box, kind + ".torrent"), piece_length=pl)
            except Exception as exc:
                run.fail("impl-vs-spec", case, {"raised": repr(exc)})
                continue
            meta = impl.decode(raw)
            leaf = meta[b"info"][b"file tree"][b"big.bin"][b""]
            layers = {bytes(k): bytes(v) for k, v in meta.get(b"piece layers", {}).items()}
            if leaf.get(b"pieces root") != want_root or layers != {want_root: want_layer}:
                run.fail("impl-vs-spec", case, {"why": "pieces root / piece layers differ from BEP 52"})
            run.case(["big-piece", kind], True, sample=case, classes=["big-piece"])


from harness.common import translated_tie as common_translated_tie  # noqa: E402


def run(tier, seed, replay=None):
    run = Run("C02", tier, seed, RULE)
    drv = Driver()

    def still_fails(c):
        probe = Run("C02", tier, seed, RULE)
        files = cr.files_of_case(c)
        if c.get("earlier") is not None:
            run_rewritten(probe, cr.earlier_of(c), files, c["pl"], c["single"], "shrink", again=c.get("again", 1))
        else:
            run_case(probe, Driver(), files, c["pl"], c["single"], "shrink")
        return any(f.kind == "impl-vs-spec" for f in probe.failures)
    run.shrinker = still_fails
    if replay:
        c = replay["case"]
        if c.get("scaled"):
            scaled_sweep(run, drv, "quick")
        else:
            files = cr.files_of_case(c)
            if c.get("earlier") is not None:
                run_rewritten(run, cr.earlier_of(c), files, c["pl"], c["single"], "replay", again=c.get("again", 1))
            else:
                run_case(run, drv, files, c["pl"], c["single"], "replay")
            settle_model(run, drv)
        return run.finish()
    for files, pl, single in cr.corner_cases():
        run_case(run, drv, files, pl, single, "corner")
    for pl in (16384, 32768):
        for label, before, after, single in cr.rewritten_shapes(pl):
            run_rewritten(run, before, after, pl, single, "rewritten:" + label, again=1 if pl == 16384 else 2)
    n = 90 if tier == "quick" else 600
    import random
    for i in range(n):
        files, pl, single = cr.make_case(run.rng, tier)
        run_case(run, drv, files, pl, single, "random")
        # (own generator: the stream of the cases above stays what it was)
        rng2 = random.Random(f"{seed}/rewritten/{i}")
        if rng2.random() < 0.2:
            before = cr.other_state(rng2, files, pl, single)
            if before is not None:
                run_rewritten(run, before, files, pl, single, "rewritten:random", again=rng2.choice([1, 1, 2]))
    settle_model(run, drv)
    big_piece(run)
    scaled_sweep(run, drv, tier)
    common_translated_tie(run, ["next_power_2", "merkle_root"])
    return run.finish()

"""C16 - recheck percentage is the exact share of bytes in verifying pieces."""
import os

from harness import impl, refspec
from harness.common import Driver, Run, sandbox
from harness.props import rechecking as rc
from harness.props import creation as cr
from harness.props.c05 import rc_model, settle

RULE = ("payloads as in C05 with 0..4 simultaneous damages (flip / truncate / remove, each "
        "piece's absent range containing a non-zero described byte); the reported number and "
        "the per-piece (verdict, size) stream are compared with the reference piece-by-piece "
        "computation; distinct by (version, source, pl, residues, damage kinds+piece indexes); "
        "non-trivial when >= 2 damaged pieces lie in different files")


def fmt(stream):
    return [f"{1 if ok else 0}:{size}" for ok, size in stream]


def run_case(run, drv, case, exp, want_full=True):
    with sandbox("c16") as box:
        try:
            mpath, root, parent, name, files, raw = rc.build(box, case)
        except Exception as exc:
            run.fail("impl-vs-spec", case, {"raised in create": repr(exc)})
            return None
        if sum(len(b) for _, b in files) == 0:
            return None
        state = rc.apply_damage(files, case["damage"])
        intact = {rel: b.bytes() for rel, b in files}
        if not all(ok for ok, _ in rc.reference(raw, case["single"], intact, files)):
            if case["source"] != "own":
                run.fail("spec-vs-ref", case, {"what": "reference encoder/verifier disagree"})
            return None
        content0 = parent if case["via_parent"] else root
        stamps = {}
        if case.get("prime"):
            # an earlier recheck of the intact payload in this process, then damage that keeps
            # sizes and modification times: the second verdict must reflect the bytes on disk
            try:
                impl.recheck(mpath, content0)
            except Exception:
                pass
            for base, _, fns in os.walk(parent):
                for fn in fns:
                    st = os.stat(os.path.join(base, fn))
                    stamps[os.path.join(base, fn)] = (st.st_atime_ns, st.st_mtime_ns)
        reused = None
        if case.get("reuse_checker") and os.path.exists(content0):
            # a long-lived caller keeps ONE Checker and asks it again after the content changed
            from harness.common import quiet, use_repo
            use_repo()
            from torrentfile.recheck import Checker
            try:
                with quiet():
                    reused = Checker(mpath, content0)
                    reused.results()
                    list(zip(range(2), reused.iter_hashes()))       # ... and an abandoned iteration
            except Exception:
                reused = None
        rc.damage_disk(root, case["single"], state)
        for path, ns in stamps.items():
            if os.path.exists(path):
                os.utime(path, ns=ns)
        if case["single"] and state[files[0][0]] is None:
            return None        # nothing to point recheck at
        ref = rc.reference(raw, case["single"], state, files)
        content = parent if case["via_parent"] else root
        if not os.path.exists(content):
            content = parent
        if case.get("via_symlink") and os.path.lexists(root) and not os.path.islink(root):
            # the payload is reached through a symbolic link named like the torrent (a linked
            # download directory): the verdicts are those of the bytes behind the link
            store = os.path.join(os.path.dirname(parent), "store")
            os.makedirs(store, exist_ok=True)
            real = os.path.join(store, "Some.Other.Name")
            os.rename(root, real)
            os.symlink(real, root)
        try:
            result, stream = impl.recheck(mpath, content)
        except Exception as exc:
            run.fail("impl-vs-spec", case, {"raised": repr(exc)})
            return None
        if reused is not None and os.path.exists(content0) and content == content0:
            from harness.common import quiet
            try:
                with quiet():
                    again = reused.results()
            except Exception as exc:
                again = repr(exc)
            if again != result:
                run.fail("impl-vs-spec", dict(case, reused_checker=True),
                         {"why": "a Checker object asked again after the content changed answers differently "
                                 "from a new one", "reused": again, "fresh": result})
        exp[id(case)] = (fmt(stream), fmt(ref))
        rc_model(drv, case, raw, files, state)
        from harness.props.c05 import full_model
        exp[("full", id(case))] = exp[id(case)]
        full_model(drv, case, raw, files, state, content == parent, os.path.basename(content))
        return result, stream, ref


def judge(run, case, res):
    result, stream, ref = res
    want = rc.percent(ref)
    if [(bool(o), s) for o, s in stream] != [(bool(o), s) for o, s in ref]:
        run.fail("impl-vs-spec", case, {"why": "per-piece verdicts differ from the reference",
                                        "impl": fmt(stream)[:16], "ref": fmt(ref)[:16]})
    elif result != want:
        run.fail("impl-vs-spec", case, {"why": "percentage", "impl": result, "ref": want})


def zero_case(rng, tier):
    """v1 payload with empty / all-zero files, damaged by removals and truncations that leave
    every piece verifiable (absent data reads as zeros): the reference says such pieces still
    verify, so the share must not drop."""
    from harness.common import Blob
    while True:
        case = rc.make_case(rng, tier, damage=False)
        if case["version"] == 1 and not case["single"]:
            break
    files = [(rel, cr.blob_from_token(t)) for rel, t in case["files"]]
    for i, (rel, b) in enumerate(files):
        if rng.random() < 0.5:
            files[i] = (rel, Blob.zero(len(b)) if rng.random() < 0.7 else Blob.zero(0))
    files.append(("zz-last-empty", Blob.zero(0)))
    case["files"] = [(rel, b.token()) for rel, b in files]
    if "v1_order" in case:
        case["v1_order"] = case["v1_order"] + ["zz-last-empty"]
    case["zero_ok"] = True
    # damaged content is addressed by an unambiguous path (see rechecking.make_case)
    case.pop("parent_like_name", None)
    case.pop("case_sibling", None)
    case["damage"] = rc.make_damage(rng, files, case["pl"], 1, False, rng.randrange(1, 4),
                                    case.get("v1_order"), zero_ok=True)
    return case


def exhaustive_small_scope(run, drv):
    """Scaled mode (B = 64), reference metafiles: EVERY tree of up to 3 (v1) / 2 (v2, hybrid)
    files named a, b, c with sizes from {0,1,63,64,65,128,129}, piece lengths 64 and 128,
    intact and with EVERY single damage from {remove f, truncate f to 0 / half / len-1,
    flip first / last byte of f} (for v2/hybrid only damages whose absent range is not all
    zero). A finite space, enumerated completely."""
    import itertools
    sizes = [0, 1, 63, 64, 65, 128, 129]
    names = ["a", "b", "c"]
    count = 0
    with rc.scaled(64):
        exp = {}
        for version in (1, 2, 3):
            for k in range(1, 4 if version == 1 else 3):
                for combo in itertools.product(sizes, repeat=k):
                    if sum(combo) == 0:
                        continue
                    for pl in (64, 128):
                        files = [(names[i], f"r{i + 1}.{combo[i]}") for i in range(k)]
                        damages = [[]]
                        for i in range(k):
                            n = combo[i]
                            if n == 0:
                                continue
                            damages += [[["remove", names[i]]], [["trunc", names[i], 0]],
                                        [["flip", names[i], 0]], [["flip", names[i], n - 1]]]
                            if n > 1:
                                damages += [[["trunc", names[i], n // 2]], [["trunc", names[i], n - 1]]]
                        for dmg in damages:
                            case = {"files": files, "pl": pl, "version": version, "single": False,
                                    "source": "ref", "creator": "v1", "via_parent": False,
                                    "damage": dmg, "scaled": 64, "exhaustive": True}
                            res = run_case(run, drv, case, exp)
                            if res is None:
                                continue
                            judge(run, case, res)
                            count += 1
                            run.case(["small-scope", version, pl, list(combo), dmg], bool(dmg),
                                     sample=None, classes=["small-scope", f"v{version}"])
                settle(run, drv, exp)
                exp = {}
    run.extra["exhaustive_small_scope"] = {
        "cases": count, "exhaustive": True,
        "space": "B=64; files a,b,c; sizes {0,1,63,64,65,128,129}; <=3 files (v1) / <=2 (v2, hybrid); "
                 "pl in {64,128}; intact + every single remove/truncate(0,half,len-1)/flip(first,last)"}


def nontrivial(case):
    return len({op[1] for op in case["damage"]}) >= 2


def key(case):
    return [case["version"], case["source"], case["pl"], case["single"],
            sorted([len(cr.blob_from_token(t)) % case["pl"]] for _, t in case["files"]),
            [[op[0], op[1]] + [o // case["pl"] for o in op[2:]] for op in case["damage"]]]


def run(tier, seed, replay=None):
    run = Run("C16", tier, seed, RULE)
    drv = Driver()
    exp = {}

    def still_fails(c):
        probe = Run("C16", tier, seed, RULE)
        res = run_case(probe, Driver(), dict(c), {})
        if res is not None:
            judge(probe, c, res)
        return any(f.kind == "impl-vs-spec" for f in probe.failures)
    run.shrinker = still_fails
    from harness.common import corpus_cases
    cases = [replay["case"]] if replay else corpus_cases("C16") + rc.empty_run_cases(True)[::2] + rc.empty_run_cases(False)[1::4] + \
        [rc.make_case(run.rng, tier, damage=(i % 5 != 0)) for i in range(200 if tier == "quick" else 1500)] + \
        [zero_case(run.rng, tier) for _ in range(40 if tier == "quick" else 300)]
    if not replay:
        # fixed shapes: a foreign v1 metafile whose padding entries end INSIDE a piece (files aligned
        # to 16 KiB, pieces of 64 KiB), intact and with one flipped byte; reused Checker objects
        from harness.common import Blob
        fx = [("a", Blob.rand(3, 20000).token()), ("b", Blob.rand(4, 70000).token()), ("c", Blob.rand(5, 5).token())]
        for dmg in ([], [["flip", "b", 40000]], [["trunc", "a", 7]]):
            cases.append({"files": fx, "pl": 65536, "version": 1, "single": False, "source": "ref", "creator": "v1",
                          "via_parent": bool(dmg), "damage": dmg, "pad_to": 16384, "reuse_checker": True})
    import contextlib
    for i, case in enumerate(cases):
        if not replay and i % 3 == 0:
            case["prime"] = True
        with (rc.scaled(case["scaled"]) if case.get("scaled") else contextlib.nullcontext()):
            res = run_case(run, drv, case, exp)
            if res is not None and case.get("scaled"):
                judge(run, case, res)
                settle(run, drv, exp)
                continue
        if res is None:
            continue
        judge(run, case, res)
        run.case(key(case), nontrivial(case), sample=case,
                 classes=[f"v{case['version']}", case["source"], f"damages={len(case['damage'])}"])
    settle(run, drv, exp)
    if tier == "thorough" and not replay:
        exhaustive_small_scope(run, drv)
        with rc.scaled(64):
            exp2 = {}
            for i in range(3000):
                case = rc.make_case(run.rng, "quick", damage=(i % 4 != 0))
                case["scaled"] = 64
                res = run_case(run, drv, case, exp2)
                if res is None:
                    continue
                judge(run, case, res)
                run.case(["scaled"] + key(case), nontrivial(case), sample=case,
                         classes=["scaled", f"v{case['version']}"])
            settle(run, drv, exp2)
    return run.finish()

"""C05 - recheck reports exactly 100% for intact content of any well-formed metafile."""
import os

from harness import impl, refspec
from harness.common import Driver, Run, sandbox
from harness.props import rechecking as rc
from harness.props import creation as cr

RULE = ("intact payloads: trees / single files (boundary-class sizes incl. empty files and "
        "files ending on piece boundaries), v1/v2/hybrid, metafile from torrentfile's creators "
        "or the reference encoder (variants: hybrid without trailing pad entry, v2 single file "
        "without info.length); content path = root and parent both; distinct by (version, "
        "source, pl, sorted residues); non-trivial when the tree has an empty file, a "
        "boundary-exact file, or a reference-encoder metafile")


def nontrivial(case):
    if case["source"] != "own":
        return True
    for _, t in case["files"]:
        n = len(cr.blob_from_token(t))
        if n == 0 or n % case["pl"] == 0:
            return True
    return False


EXPECT = {}


def run_case(run, drv, case):
    with sandbox("c05") as box:
        try:
            mpath, root, parent, name, files, raw = rc.build(box, case)
        except Exception as exc:
            run.fail("impl-vs-spec", case, {"raised in create": repr(exc)})
            return
        total = sum(len(b) for _, b in files)
        if total == 0:
            return
        state = {rel: b.bytes() for rel, b in files}
        ref = rc.reference(raw, case["single"], state, files)
        pads = 0
        if case["version"] == 1 and (case.get("align") or case.get("attrs") or case.get("pad_to")):
            info0 = refspec.lenient_decode(raw)[b"info"]
            pads = sum(e[b"length"] for e in info0.get(b"files", []) if b"p" in e.get(b"attr", b""))
        if not all(ok for ok, _ in ref) or sum(s for _, s in ref) != total + pads:
            # our own reference does not accept the metafile: only a violation when
            # torrentfile wrote it (creation properties report that); skip here
            if case["source"] == "own":
                return
            run.fail("spec-vs-ref", case, {"what": "reference encoder/verifier disagree"})
            return
        for path, label in ((root, "root"), (parent, "parent")):
            try:
                result, stream = impl.recheck(mpath, path)
                EXPECT[id(case)] = ([f"{1 if o else 0}:{s}" for o, s in stream],
                                    [f"{1 if o else 0}:{s}" for o, s in ref])
                sub = dict(case, content=label)
                EXPECT[("full", id(sub))] = EXPECT[id(case)]
                full_model(drv, sub, raw, files, state, label == "parent",
                           os.path.basename(path))
            except Exception as exc:
                run.fail("impl-vs-spec", dict(case, content=label), {"raised": repr(exc)})
                continue
            if result != 100:
                run.fail("impl-vs-spec", dict(case, content=label),
                         {"result": result, "pieces": [(bool(o), s) for o, s in stream][:12]})
        rc_model(drv, case, raw, files, state)
        # the content path spelled relatively from inside the payload or its parent
        old_cwd = os.getcwd()
        spellings = [(parent, ".", "parent as '.'"), (parent, "./" + name, "root as './name'")]
        if not case["single"]:
            spellings += [(root, ".", "root as '.'"), (root, "..", "parent as '..'"),
                          (root, "../" + name + "/.", "root as '../name/.'")]
            sub = next((rel.split("/")[0] for rel, _ in files if "/" in rel), None)
            if sub:
                spellings.append((root, sub + "/..", "root as 'sub/..'"))
        for cwd, spelled, label in spellings:
            try:
                os.chdir(cwd)
                result = impl.recheck_result(mpath, spelled)
            except Exception as exc:
                run.fail("impl-vs-spec", dict(case, content=label), {"raised": repr(exc)})
                continue
            finally:
                os.chdir(old_cwd)
            if result != 100:
                run.fail("impl-vs-spec", dict(case, content=label), {"result": result})
        # the command line, and a payload that is a symbolic link named like the torrent
        store = os.path.join(box, "store")
        os.makedirs(store)
        real = os.path.join(store, "Some.Other.Name")
        os.rename(root, real)
        os.symlink(real, root)
        for path, label in ((root, "cli-symlink-root"), (parent, "cli-symlink-parent")):
            try:
                result = impl.cli(["recheck", mpath, path])
            except BaseException as exc:  # noqa
                run.fail("impl-vs-spec", dict(case, content=label), {"raised": repr(exc)})
                continue
            if result != 100:
                run.fail("impl-vs-spec", dict(case, content=label), {"result": result})
    run.case([case["version"], case["source"], case["pl"], case["single"]] +
             sorted([len(cr.blob_from_token(t)) % case["pl"],
                     min(len(cr.blob_from_token(t)) // case["pl"], 6)] for _, t in case["files"]),
             nontrivial(case), sample=case,
             classes=[f"v{case['version']}", case["source"],
                      "single" if case["single"] else "dir"])


def rc_model(drv, case, raw, files, state):
    """Queue the Lean model evaluation (Impl + Spec) of this recheck."""
    meta = refspec.lenient_decode(raw)
    info = meta[b"info"]
    pl = info[b"piece length"]
    if b"meta version" not in info:
        if b"files" in info:
            entries = [("/".join(c.decode("utf8") for c in e[b"path"]), e[b"length"], b"p" in e.get(b"attr", b""))
                       for e in info[b"files"]]
        else:
            entries = [(files[0][0], info[b"length"], False)]
        toks = []
        for rel, length, pad in entries:
            # a padding entry stands for zeros whatever sits at its path (a real file may be
            # named exactly like it, e.g. '.pad/16383')
            data = None if pad else state.get(rel)
            toks += [str(length), "absent" if data is None else "h" + (data.hex() or "-")]
        from harness.common import hx
        drv.ask(f"feed {pl} {hx(info[b'pieces'])} {len(entries)} " + " ".join(toks),
                ("feed", case))
    else:
        leaves = cr.leaves_of(info[b"file tree"])
        layers = meta.get(b"piece layers", {})
        from harness.common import hx
        toks = []
        for comps, leaf in leaves:
            rel = files[0][0] if case["single"] else "/".join(c.decode("utf8") for c in comps)
            length = leaf[b"length"]
            root = leaf.get(b"pieces root")
            pieces = b"" if root is None else (layers.get(root, b"") if length > pl else root)
            data = state.get(rel)
            toks += [str(length), hx(root or b""), hx(pieces),
                     "absent" if data is None else "h" + (data.hex() or "-")]
        drv.ask(f"hashcheck {rc.B} 32 {pl // rc.B} {len(leaves)} " + " ".join(toks),
                ("hashcheck", case))


def full_model(drv, case, raw, files, state, via_parent, argname):
    """Queue the Lean model of the WHOLE Checker (metafile bytes + disk + content argument)."""
    from harness.common import hx
    pairs = []
    for rel, _ in files:
        data = state.get(rel)
        if data is None:
            continue
        relp = "-" if case["single"] else rel
        pairs += [relp if relp == "-" else hx(relp.encode("utf8")), "h" + (data.hex() or "-")]
    tail = ""
    name = files[0][0].split("/")[-1] if case["single"] else case.get("root_name", "payload")
    if via_parent and case.get("case_sibling") and name.swapcase() != name and name.swapcase() != argname:
        sib = []
        for rel, b in files:
            relp = name.swapcase() if case["single"] else name.swapcase() + "/" + rel
            sib += [hx(relp.encode("utf8")), "h" + (b.bytes().hex() or "-")]
        tail = f" siblings {len(sib) // 2} " + " ".join(sib)
    drv.ask(f"recheckfull {hx(raw)} {'parent' if via_parent else 'root'} "
            f"{hx(argname.encode('utf8'))} {rc.B} {len(pairs) // 2} " + " ".join(pairs) + tail,
            ("full", case))


def settle(run, drv, expected_by_case):
    """Compare driver answers `<impl list> | <spec list>` with the implementation streams."""
    import os as _os
    for (kind, case), req, out in drv.run():
        if out.startswith("ERR bad-"):
            if _os.environ.get("VERIF_DEV") and "bad-op" in out:
                continue
            from harness.common import MachineryError
            raise MachineryError(f"driver: {req[:50]} -> {out[:100]}")
        run.model_checked += 1
        left, _, right = out.partition("|")
        key = id(case) if kind != "full" else ("full", id(case))
        want = expected_by_case.get(key)
        if want is None:
            continue
        impl_stream, ref_stream = want

        def tot(stream):
            pairs = [t.split(":") for t in stream]
            return [str(sum(int(s) for o, s in pairs if o == "1")), str(sum(int(s) for _, s in pairs))]
        if left.split() != impl_stream + tot(impl_stream):
            run.fail("impl-vs-model", case, {"correspondence": f"Impl.{kind}",
                                             "model": left.split()[:12], "impl": impl_stream[:12]})
        if right.split() != ref_stream + tot(ref_stream):
            if case.get("source") == "own":
                # the metafile was written by the code under test; when it is not what a creator
                # should write, the two specifications may read it differently - the creation
                # checks judge that, and the implementation-vs-specification comparison above stands
                continue
            run.fail("spec-vs-ref", case, {"lean_spec": right.split()[:12], "ref": ref_stream[:12]})


def big_piece(run):
    """Piece length 2^25 with a file that leaves more than 16 MiB behind a piece boundary: the
    v1 checker must read whole pieces whatever its buffer sizes are (no model tie: the blobs
    are too large for the line protocol; the verdict is judged by the reference alone)."""
    from harness.common import Blob
    pl = 2 ** 25
    for version, kind in ((1, "v1"), (3, "a3")):
        with sandbox("c05b") as box:
            root = os.path.join(box, "parent", "payload")
            os.makedirs(root)
            pat = Blob.rand(9, 1021).bytes()
            sizes = {"big.bin": 2 ** 25 + 17 * 2 ** 20 + 5, "z-small": 1000}
            for name, n in sizes.items():
                with open(os.path.join(root, name), "wb") as fd:
                    fd.write((pat * (n // 1021 + 1))[:n])
            case = {"big_piece": True, "pl": pl, "sizes": sizes, "version": version}
            try:
                impl.create(kind, root, os.path.join(box, "m.torrent"), piece_length=pl)
                result = impl.recheck_result(os.path.join(box, "m.torrent"), os.path.dirname(root))
            except Exception as exc:
                run.fail("impl-vs-spec", case, {"raised": repr(exc)})
                continue
            if result != 100:
                run.fail("impl-vs-spec", case, {"result": result})
            run.case(["big-piece", version, pl], True, sample=case, classes=["big-piece"])


def many_files(run):
    """More payload files than the process may hold open at once (soft RLIMIT_NOFILE lowered for
    the duration of the recheck): files are opened one after the other, never all at once."""
    import resource
    from harness.common import write_tree
    for version, kind in ((1, "v1"), (2, "a2"), (3, "hy")):
        with sandbox("c05m") as box:
            root = os.path.join(box, "parent", "payload")
            write_tree(root, [(f"d{i % 7}/f{i:03d}", bytes([i % 251 + 1]) * (10 + i % 5)) for i in range(300)])
            mpath = os.path.join(box, "m.torrent")
            case = {"many_files": 300, "nofile_limit": 128, "version": version, "creator": kind}
            soft, hard = resource.getrlimit(resource.RLIMIT_NOFILE)
            try:
                impl.create(kind, root, mpath, piece_length=16384)
                resource.setrlimit(resource.RLIMIT_NOFILE, (128, hard))
                try:
                    result = impl.recheck_result(mpath, root)
                finally:
                    resource.setrlimit(resource.RLIMIT_NOFILE, (soft, hard))
            except Exception as exc:
                run.fail("impl-vs-spec", case, {"raised": repr(exc)})
                continue
            if result != 100:
                run.fail("impl-vs-spec", case, {"result": result})
            run.case(["many-files", version], True, sample=case, classes=["many-files"])


def run(tier, seed, replay=None):
    run = Run("C05", tier, seed, RULE)
    drv = Driver()

    def still_fails(c):
        probe = Run("C05", tier, seed, RULE)
        if c.get("big_piece") or c.get("many_files"):
            return True
        run_case(probe, Driver(), dict(c))
        return any(f.kind == "impl-vs-spec" for f in probe.failures)
    run.shrinker = still_fails
    exp = {}
    from harness.common import corpus_cases
    cases = [replay["case"]] if replay else corpus_cases("C05") + rc.empty_run_cases(False) + \
        [rc.make_case(run.rng, tier, damage=False) for _ in range(150 if tier == "quick" else 900)]
    if not replay:
        # single-piece payloads whose SHA-1 / SHA-256 digest is valid UTF-8
        from harness import gen
        from harness.common import Blob
        for version, creators, data in ((1, ["v1"], gen.UTF8_DIGEST[0]), (2, ["a2", "v2"], gen.UTF8_DIGEST[1]),
                                        (3, ["a3", "hy"], gen.UTF8_DIGEST[1]), (3, ["hy"], gen.UTF8_DIGEST[0]),
                                        (2, ["a2", "v2"], gen.UTF8_ROOT_2PIECES),
                                        (3, ["a3", "hy"], gen.UTF8_ROOT_2PIECES)):
            for source in ["own"] * len(creators) + ["ref"]:
                cases.append({"files": [("f.bin", Blob.hexb(data).token())], "pl": 16384, "version": version,
                              "single": True, "source": source, "creator": creators[len(cases) % len(creators)],
                              "via_parent": False, "damage": [], "utf8_digest": True})
    if not replay:
        # attributes (executable, hidden) on REAL files of a v1 / hybrid list: they are payload
        from harness.common import Blob as _Bl
        for version in (1, 3):
            cases.append({"files": [("a", _Bl.rand(3, 20000).token()), ("d/b", _Bl.rand(4, 16384).token()),
                                    ("d/c", _Bl.rand(5, 7).token())], "pl": 16384, "version": version,
                          "single": False, "source": "ref", "creator": "v1", "via_parent": False, "damage": [],
                          "attrs": {"a": "x", "d/b": "xh", "d/c": "h"}})
    if not replay:
        from harness.common import Blob as _Bl3
        cases.append({"files": [("a", _Bl3.rand(3, 20000).token()), ("b", _Bl3.rand(4, 70000).token()),
                                ("c", _Bl3.rand(5, 5).token())], "pl": 65536, "version": 1, "single": False,
                      "source": "ref", "creator": "v1", "via_parent": False, "damage": [], "pad_to": 16384})
    if not replay:
        from harness.common import Blob as _Bl2
        for plx in (8192, 10000, 49152, 98304, 4096):
            cases.append({"files": [("a", _Bl2.rand(3, 30000).token()), ("d/b", _Bl2.rand(4, 12345).token())],
                          "pl": plx, "version": 1, "single": False, "source": "ref", "creator": "v1",
                          "via_parent": False, "damage": [], "odd_piece_length": True})
    for case in cases:
        if case.get("big_piece") or case.get("many_files"):
            continue
        run_case(run, drv, case)
    if not replay or replay["case"].get("big_piece"):
        big_piece(run)
    if not replay or replay["case"].get("many_files"):
        many_files(run)
    settle(run, drv, EXPECT)
    return run.finish()

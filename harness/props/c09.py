"""C09 - results never depend on what the process did earlier."""
import concurrent.futures
import json
import os
import random
import shutil
import subprocess
import sys

from harness import gen, ops
from harness.common import REPO, VERIF, Driver, MachineryError, Run, sandbox, snapshot, write_tree

RULE = ("random histories (quick <= 8 ops, thorough <= 20) over {create v1/v2/hybrid (library "
        "and CLI, with -q/-v), add/delete/grow/shrink/rewrite a file, edit, recheck, rebuild, "
        "magnet} executed in ONE interpreter (several histories per worker process, so state "
        "accumulates), each operation also executed in a fresh interpreter on an identical "
        "copy of the filesystem; observables (metafile bytes, edited bytes, percentage, "
        "rebuild count + destination snapshot, URI, error kind) must be equal; distinct by op "
        "kind sequence; non-trivial when the history mutates the tree between two operations "
        "on it; plus a static inventory of the package's process-lifetime state (caches, "
        "class/module-level containers that are mutated, class attribute assignments, globals, "
        "mutable defaults, os.environ writes) compared with the fields of the Lean model's Proc")


def gen_history(rng, length):
    pl = 16384
    auto = rng.random() < 0.4         # creates without a piece length (automatic choice)
    files = {"a": "r1.90000", "d/b": "r2.16384", "d/c": "r3.5"}
    hist = [{"op": "fs", "kind": "add", "rel": "p/" + r, "data": t} for r, t in files.items()]
    present = {"p/" + r for r in files}
    metas = []
    counter = 0
    while len(hist) < length + 3:
        counter += 1
        r = rng.random()
        if r < 0.3 or not metas:
            kind = rng.choice(["v1", "a2", "a3", "v2", "hy"])
            op = {"op": "create", "kind": kind, "path": "p", "out": f"m{counter}.torrent",
                  "pl": None if auto else rng.choice([16384, 16384, 32768, 65536])}
            r2 = rng.random()
            if kind in ("v1", "a2", "a3") and r2 < 0.35:
                op["cli"] = True
                op["flags"] = rng.choice([[], ["-q"], ["-v"]])
            elif kind in ("v1", "a2", "a3") and r2 < 0.5:
                # through a configuration file; every other call names nothing but the path
                op["config"] = rng.choice([
                    {"announce": "http://cfg.tracker/%d http://cfg.tracker/b" % counter, "piece-length": 16384},
                    {"web-seed": "http://cfg.seed/%d" % counter, "comment": "from config %d" % counter,
                     "piece-length": 16384},
                    {"piece-length": 16384}])
            elif kind in ("v1", "v2", "hy") and r2 < 0.65:
                # through the interactive dialog; empty answers mean "default / not given"
                full = rng.random() < 0.5
                op["interactive"] = True
                op["answers"] = ["16384",
                                 "http://dlg.tracker/%d" % counter if full else "",
                                 "http://dlg.seed/%d" % counter if full else "", "",
                                 "dialog %d" % counter if full else "", "src" if full else "",
                                 "y" if full and rng.random() < 0.5 else "",
                                 "p", "./" + op["out"] if rng.random() < 0.7 else "",
                                 {"v1": "1", "v2": "2", "hy": "3"}[kind]]
                if op["answers"][8] == "":
                    op["out"] = "p.torrent"      # the dialog's default output path
            metas.append(op["out"])
            hist.append(op)
        elif r < 0.6:
            k = rng.choice(["add", "delete", "grow", "shrink", "rewrite", "rewrite-same-size"] +
                           (["resize"] * 3 if auto else []))
            if k == "resize":
                # sparse file crossing the automatic piece-length thresholds (1000 * 2^k)
                hist.append({"op": "fs", "kind": "resize", "rel": "p/big",
                             "size": rng.choice([0, 16_384_001 - 106_389, 16_400_000, 33_000_000, 5])})
                present.add("p/big")
                continue
            if k == "add":
                rel = "p/" + rng.choice(["n", "d/n", "e/f", "z"]) + str(counter)
                hist.append({"op": "fs", "kind": "add", "rel": rel,
                             "data": f"r{counter}.{rng.choice([0, 1, 16384, 30000])}"})
                present.add(rel)
            elif len(present) > 1:
                rel = rng.choice(sorted(present))
                if k == "delete":
                    present.discard(rel)
                    hist.append({"op": "fs", "kind": "delete", "rel": rel})
                elif k == "grow":
                    hist.append({"op": "fs", "kind": "grow", "rel": rel, "data": f"r{counter}.{rng.choice([1, 16384])}"})
                elif k == "rewrite-same-size":
                    hist.append({"op": "fs", "kind": "rewrite-same-size", "rel": rel, "seed": counter})
                elif k == "shrink":
                    hist.append({"op": "fs", "kind": "shrink", "rel": rel, "by": rng.choice([1, 5, 16384])})
                else:
                    hist.append({"op": "fs", "kind": "rewrite", "rel": rel, "data": f"r{counter}.{rng.choice([7, 20000])}"})
        elif r < 0.64:
            hist.append({"op": "create-abort", "kind": rng.choice(["a3", "a2", "hy", "v2"]), "path": "p",
                         "out": f"aborted{counter}.torrent", "pl": 16384, "after": rng.choice([1, 2, 3])})
        elif r < 0.7:
            op = {"op": "edit", "meta": rng.choice(metas),
                  "req": {"comment": rng.choice(["x", "", "y z"]),
                          "announce": rng.choice([None, ["http://a/b"], ""])}}
            if rng.random() < 0.5:
                # through the command line: every call names its own fields only
                op["cli"] = True
                op["flags"] = rng.choice([[], ["-q"], ["-v"]])
                op["req"] = rng.choice([{"comment": "c" + str(counter)}, {"announce": ["http://t/" + str(counter)]},
                                        {"source": "s" + str(counter)}])
            hist.append(op)
        elif r < 0.8:
            hist.append({"op": "recheck", "meta": rng.choice(metas), "content": rng.choice(["p", "."]),
                         "reuse": rng.random() < 0.5})
        elif r < 0.9:
            dests = [o["dest"] for o in hist if o["op"] == "rebuild"]
            hist.append({"op": "rebuild", "metas": [rng.choice(metas)], "contents": ["p"],
                         # sometimes into a destination an earlier rebuild already filled
                         "dest": rng.choice(dests) if dests and rng.random() < 0.4 else f"dest{counter}"})
        else:
            hist.append({"op": "magnet", "meta": rng.choice(metas)})
    # epilogues: the same question asked again after the content changed under it
    counter += 1
    last = [rng.choice(["a2", "v2", "a3", "v1"]) for _ in range(2)]
    pl2 = None if auto else rng.choice([16384, 32768])
    hist += [
        # (a long-lived creator object only with an explicit piece length: the automatic choice
        # is made once, when the object is constructed, and belongs to the object)
        {"op": "create", "kind": last[0], "path": "p", "out": f"e{counter}a.torrent", "pl": pl2,
         "reuse": f"E{counter}" if pl2 else None},
        {"op": "recheck", "meta": f"e{counter}a.torrent", "content": "p", "reuse": True},
        {"op": "rebuild", "metas": [f"e{counter}a.torrent"], "contents": ["p"], "dest": f"edest{counter}a"},
        {"op": "fs", "kind": "rewrite-same-size", "rel": sorted(present)[0], "seed": counter + 77},
        {"op": "fs", "kind": "add", "rel": f"p/late/arrival{counter}", "data": f"r{counter}.20000"},
        {"op": "recheck", "meta": f"e{counter}a.torrent", "content": "p", "reuse": True},
        {"op": "create", "kind": last[0], "path": "p", "out": f"e{counter}b.torrent", "pl": pl2,
         "reuse": f"E{counter}" if pl2 else None},
        {"op": "rebuild", "metas": [f"e{counter}b.torrent"], "contents": ["p"], "dest": f"edest{counter}b"},
        # the same rebuild once more (everything is already there), then again into the destination
        # of the EARLIER state, then after a destination file was cut short
        {"op": "rebuild", "metas": [f"e{counter}b.torrent"], "contents": ["p"], "dest": f"edest{counter}b"},
        {"op": "rebuild", "metas": [f"e{counter}b.torrent"], "contents": ["p"], "dest": f"edest{counter}a"},
        {"op": "fs", "kind": "shrink", "rel": f"edest{counter}b/p/late/arrival{counter}", "by": 5000},
        {"op": "rebuild", "metas": [f"e{counter}b.torrent"], "contents": ["p"], "dest": f"edest{counter}b"},
        {"op": "recheck", "meta": f"e{counter}b.torrent", "content": f"edest{counter}b"},
        # a single-file torrent rebuilt twice into one destination
        {"op": "fs", "kind": "add", "rel": "solo.bin", "data": f"r{counter}.40000"},
        {"op": "create", "kind": last[1], "path": "solo.bin", "out": f"solo{counter}.torrent", "pl": 16384},
        {"op": "rebuild", "metas": [f"solo{counter}.torrent"], "contents": ["."], "dest": f"sdest{counter}"},
        {"op": "rebuild", "metas": [f"solo{counter}.torrent"], "contents": ["."], "dest": f"sdest{counter}"},
        {"op": "create", "kind": last[1], "path": "p", "out": f"k{counter}.torrent", "pl": 16384,
         "opts": {"comment": "key-AAAA", "announce": ["http://t/pk-1111/a"]}},
        {"op": "magnet", "meta": f"k{counter}.torrent"},
        {"op": "edit", "meta": f"k{counter}.torrent", "req": {"comment": "key-BBBB", "announce": ["http://t/pk-2222/a"]}},
        {"op": "magnet", "meta": f"k{counter}.torrent"},
        {"op": "edit", "meta": f"e{counter}b.torrent", "req": {"comment": "key-AAAA", "announce": ["http://t/pk-1111/a"]}},
        {"op": "magnet", "meta": f"e{counter}b.torrent"},
        {"op": "edit", "meta": f"e{counter}b.torrent", "req": {"comment": "key-BBBB", "announce": ["http://t/pk-2222/a"]}},
        {"op": "magnet", "meta": f"e{counter}b.torrent"},
        {"op": "edit", "cli": True, "flags": [], "meta": f"e{counter}a.torrent",
         "req": {"comment": "only a comment " + str(counter)}},
        {"op": "edit", "cli": True, "flags": [], "meta": f"e{counter}b.torrent",
         "req": {"announce": ["http://only.tracker/" + str(counter)]}},
        {"op": "edit", "cli": True, "flags": [], "meta": f"e{counter}a.torrent",
         "req": {"source": "only-source"}},
    ]
    return hist


def fresh(op, cwd):
    env = dict(os.environ, VERIF_HOME=VERIF, VERIF_REPO=REPO, PYTHONPATH=VERIF)
    proc = subprocess.run([sys.executable, "-m", "harness.ops"], input=json.dumps(op),
                          capture_output=True, text=True, cwd=cwd, env=env)
    for line in proc.stdout.splitlines():
        if line.startswith("OBS "):
            return json.loads(line[4:])
    raise MachineryError("fresh interpreter produced no observable: " + proc.stderr[-400:])


def run_history(seed, length):
    """Executed inside a worker process. Returns (history, failure or None, stats)."""
    rng = random.Random(seed)
    hist = gen_history(rng, length)
    ops.CHECKERS.clear()     # a caller's long-lived Checker objects belong to one history
    ops.CREATORS.clear()
    mutated_between = False
    seen_create = False
    with sandbox("c09") as box:
        a, b = os.path.join(box, "A"), os.path.join(box, "B")
        os.makedirs(a)
        os.makedirs(b)
        old = os.getcwd()
        try:
            for i, op in enumerate(hist):
                if op["op"] == "fs":
                    ops.apply_fs(op, a)
                    ops.apply_fs(op, b)
                    if seen_create:
                        mutated_between = True
                    continue
                if op["op"] == "create":
                    seen_create = True
                os.chdir(a)
                got = ops.perform(op)
                os.chdir(old)
                want = fresh(op, b)
                if got != want:
                    return hist, {"step": i, "op": op, "in_process": _short(got),
                                  "fresh": _short(want)}, mutated_between
            sa, sb = snapshot(a), snapshot(b)
            if sa != sb:
                diff = sorted(k for k in set(sa) | set(sb) if sa.get(k) != sb.get(k))
                return hist, {"step": "end", "why": "filesystems differ", "paths": diff[:8]}, mutated_between
        finally:
            os.chdir(old)
    return hist, None, mutated_between


def run_group(seeds, length):
    """Several histories one after the other in ONE worker process (state accumulates)."""
    return [run_history(s, length) for s in seeds]


def _short(obs):
    return {k: (v[:120] + "..." if isinstance(v, str) and len(v) > 120 else v) for k, v in obs.items()}


def run(tier, seed, replay=None):
    run = Run("C09", tier, seed, RULE)
    length = 8 if tier == "quick" else 20
    seeds = [replay["case"]["seed"]] if replay else \
        [run.rng.randrange(10 ** 9) for _ in range(40 if tier == "quick" else 240)]
    if replay:
        length = replay["case"].get("length", length)
    # several histories per worker process, so that process state accumulates across them
    groups = [seeds[i::6] for i in range(6)]          # fixed: which histories share a process
    with concurrent.futures.ProcessPoolExecutor(max_workers=6) as pool:
        results = {}
        for grp, outs in zip(groups, pool.map(run_group, groups, [length] * 6)):
            results.update(dict(zip(grp, outs)))
        for s, (hist, failure, mutated) in ((s, results[s]) for s in seeds):
            kinds = [o["op"] + (":" + o["kind"] if "kind" in o else "") for o in hist]
            run.case(kinds, mutated, sample={"seed": s, "ops": kinds},
                     classes=sorted(set(o["op"] for o in hist)))
            if failure:
                run.fail("impl-vs-spec", {"seed": s, "length": length, "history": hist}, failure)
    # the tie of the Lean model's process state (TorrentVerif.Proc) to the source: every piece of
    # process-lifetime state the package keeps must be a field of Proc (harness/state_inventory.py)
    if not replay:
        from harness import state_inventory
        items = state_inventory.inventory(REPO)
        run.model_checked += len(items)
        new = [i for i in items if i not in state_inventory.PROC_FIELDS]
        if new:
            run.fail("impl-vs-model", {"state_inventory": items},
                     {"correspondence": "TorrentVerif.Proc lists all process-lifetime state "
                                        "(history_independent is a frame argument over its fields)",
                      "not_modelled": new})
    return run.finish()

"""C06 - every metafile written is canonical, structurally valid bencoding."""
import os

from harness import impl, refspec
from harness.common import Driver, MachineryError, Run, hx, sandbox
from harness.props import metas
from harness.props.c07 import gen_request, apply_request_impl

RULE = ("metafiles of all versions from every creator (classes + CLI) over small trees with "
        "random subsets of {trackers, web seeds, http seeds, comment, source, private}, then "
        "0..6 edits (library or CLI) adding/replacing/removing fields; after every write the "
        "bytes must pass the strict decoder (unique ascending keys at every level, minimal "
        "integers/lengths, nothing trailing) and the per-version structure check; distinct by "
        "(version, creator, option set, #multi-piece files, edit kinds); non-trivial when "
        ">= 2 piece-layer entries or >= 1 edit adding a key")


def judge(run, case, raw, version, drv, stage):
    try:
        meta = refspec.strict_decode(raw)
        strict_ok = True
    except refspec.BErr as exc:
        run.fail("impl-vs-spec", dict(case, stage=stage), {"not canonical": str(exc)})
        strict_ok = False
        drv.ask("strict " + hx(raw), ("strict", case, strict_ok))
        meta = refspec.lenient_decode(raw)      # BErr when not bencoding at all: ends the case
        why = metas.wellformed(meta, version)
        if why:
            run.fail("impl-vs-spec", dict(case, stage=stage), {"structure": why})
        return meta
    why = metas.wellformed(meta, version)
    if why:
        run.fail("impl-vs-spec", dict(case, stage=stage), {"structure": why})
    drv.ask("strict " + hx(raw), ("strict", case, strict_ok))
    return meta


def run_case(run, drv, rng, case_seed):
    try:
        _run_case(run, drv, rng, case_seed)
    except refspec.BErr:
        pass        # already reported by judge (the bytes written are not bencoding at all)


def _run_case(run, drv, rng, case_seed):
    import random
    rng = random.Random(case_seed)
    with sandbox("c06") as box:
        try:
            if case_seed < 0:
                # fixed shapes every run includes: payloads without a single byte through the
                # hybrid creators (an empty pieces string is still a pieces string)
                from harness.common import Blob
                from harness import gen
                ver, kind, cli, single = {-1: (3, "a3", False, False), -2: (3, None, True, False),
                                          -3: (3, "a3", False, True), -4: (3, "hy", False, False),
                                          -5: (1, "v1", False, False), -6: (2, "a2", False, False)}[case_seed]
                empties = [("only", Blob.rand(1, 0))] if single else \
                    [("e1", Blob.rand(1, 0)), ("d/e2", Blob.rand(1, 0))]
                m = metas.make_meta(rng, box, version=ver, via_cli=cli, single=single,
                                    files=gen.FileList(empties), kind=kind)
            else:
                m = metas.make_meta(rng, box)
        except Exception as exc:
            run.fail("impl-vs-spec", {"case_seed": case_seed}, {"raised in create": repr(exc)})
            return
        case = {"case_seed": case_seed, "version": m["version"], "creator": m["creator"],
                "opts": m["opts"], "files": [(r, b.token()) for r, b in m["files"]],
                "pl": m["pl"], "edits": []}
        meta = judge(run, case, m["raw"], m["version"], drv, "create")
        if m["creator"] != "cli":
            from harness.props import creation as cr
            cr.ask_createfull(drv, ("createfull", dict(case, stage="create"), m["raw"]), m["creator"],
                              m["files"], m["pl"], m["single"], m["name"], m["raw"], opts=m["opts"])
        nlayers = len(meta.get(b"piece layers", {})) if isinstance(meta, dict) else 0
        added = False
        if rng.random() < 0.3:
            # the user reaches the metafile through a symbolic link
            link = os.path.join(box, "link-to-meta.torrent")
            os.symlink(m["path"], link)
            m["path"] = link
            case["via_symlink"] = True
        for step in range(rng.randrange(0, 7)):
            req = gen_request(rng)
            before = refspec.lenient_decode(open(m["path"], "rb").read())
            via_cli = rng.random() < 0.4
            case["edits"].append({"req": req, "cli": via_cli})
            try:
                apply_request_impl(m["path"], req, via_cli)
            except Exception as exc:
                run.fail("impl-vs-spec", dict(case, stage=f"edit{step}"), {"raised": repr(exc)})
                break
            raw = open(m["path"], "rb").read()
            after = judge(run, case, raw, m["version"], drv, f"edit{step}")
            if isinstance(after, dict) and (set(after) - set(before)
                                            or set(after[b"info"]) - set(before[b"info"])):
                added = True
    run.case([m["version"], m["creator"], sorted(m["opts"]), nlayers,
              [sorted(k for k, v in e["req"].items() if v is not None) for e in case["edits"]]],
             nlayers >= 2 or added, sample=case, classes=[f"v{m['version']}", m["creator"],
                                                          f"edits={len(case['edits'])}"])


def run(tier, seed, replay=None):
    run = Run("C06", tier, seed, RULE)
    drv = Driver()
    if replay:
        seeds = [replay["case"]["case_seed"]]
    else:
        seeds = [-1, -2, -3, -4, -5, -6] + \
            [run.rng.randrange(10 ** 9) for _ in range(120 if tier == "quick" else 1200)]
    for s in seeds:
        run_case(run, drv, run.rng, s)
    from harness.props import creation as cr
    for (kind, case, strict_ok), req, out in cr.settle_createfull(run, drv.run()):
        if out.startswith("ERR"):
            if os.environ.get("VERIF_DEV") and "bad-op" in out:
                continue
            raise MachineryError(f"driver: {req[:40]} -> {out[:100]}")
        run.model_checked += 1
        if (out.split()[0] == "ok") != strict_ok:
            run.fail("spec-vs-ref", case, {"lean strictDecode": out[:40], "ref": strict_ok})
    return run.finish()

"""
Shared machinery of the creation-side properties C02, C03, C10, C15: build a payload,
run the creators, compare with the BEP 3 / BEP 47 / BEP 52 reference and with the Lean
models of the hashers (driver command `v2`, `v1`).
"""
import os

from harness import gen, impl, refspec
from harness.common import Blob, Driver, Run, hx, sandbox, use_repo, write_tree

B = 16384


def blob_from_token(tok):
    base, *mods = tok.split(",")
    if base[0] == "r":
        a, b = base[1:].split(".")
        blob = Blob.rand(int(a), int(b))
    elif base[0] == "z":
        blob = Blob.zero(int(base[1:]))
    else:
        blob = Blob.hexb(bytes.fromhex(base[1:]) if base[1:] != "-" else b"")
    for m in mods:
        blob = blob.trunc(int(m[1:])) if m[0] == "t" else blob.flip(int(m[1:]))
    return blob


def comps(rel):
    return tuple(c.encode("utf8") for c in rel.split("/"))


def make_case(rng, tier, single_p=0.2, allow_empty=True):
    pl = gen.pick_pl(rng)
    single = rng.random() < single_p
    if single:
        size, cls = gen.pick_size(rng, B, pl, allow_empty=False, big=(tier != "quick"))
        files = [(rng.choice(gen.NAMES), gen.pick_blob(rng, size))]
    else:
        files, _ = gen.tree(rng, B, pl, big=(tier != "quick"), allow_empty=allow_empty)
    return files, pl, single


def corner_cases():
    """Trees every run includes whatever the seed draws: a symbolic link and a hard link to a
    payload file, directories without files, very deep nesting, nothing but empty files."""
    from harness.common import Blob
    import copy
    out = []
    for pl in (16384, 32768):
        base = [("a", Blob.rand(7, pl + 777)), ("d/b", Blob.rand(8, 300))]
        sym = copy.copy(base[0][1]); sym.symlink_of = "a"
        hard = copy.copy(base[1][1]); hard.hardlink_of = "d/b"
        f1 = gen.FileList(base + [("d/link-to-a", sym), ("z/second-name", hard)])
        f1.emptydirs = ("void", "d/e/mpty")
        out.append((f1, pl, False))
        deep = "/".join(["n"] * 17)
        out.append((gen.FileList([(deep + "/leaf", Blob.rand(9, pl)), ("top", Blob.rand(10, 5))]), pl, False))
    out.append((gen.FileList([("e1", Blob.rand(1, 0)), ("d/e2", Blob.rand(1, 0))]), 16384, False))
    return out


def materialize(box, files, single):
    if single:
        name = files[0][0].split("/")[-1]
        write_tree(box, [(name, files[0][1].bytes())])
        return os.path.join(box, name), name
    root = os.path.join(box, "payload")
    write_tree(root, [(rel, b.bytes()) for rel, b in files])
    for rel, b in files:
        present = {r for r, _ in files}
        if getattr(b, "symlink_of", None) not in present | {None} or \
                getattr(b, "hardlink_of", None) not in present | {None}:
            continue        # (a shrunk case may have lost the other file: then an ordinary file)
        if getattr(b, "symlink_of", None):         # a symbolic link (relative) to the other file
            path = os.path.join(root, *rel.split("/"))
            os.remove(path)
            target = os.path.join(root, *b.symlink_of.split("/"))
            os.symlink(os.path.relpath(target, os.path.dirname(path)), path)
        elif getattr(b, "hardlink_of", None):
            path = os.path.join(root, *rel.split("/"))
            os.remove(path)
            os.link(os.path.join(root, *b.hardlink_of.split("/")), path)
    for d in getattr(files, "emptydirs", ()):
        os.makedirs(os.path.join(root, *d.split("/")), exist_ok=True)
    for rel, b in files:
        if b.kind == "z" and len(b) and not getattr(b, "hardlink_of", None) and not getattr(b, "symlink_of", None) \
                and (len(b) + len(rel)) % 2 == 0:
            # an all-zero file as a HOLE (no data block allocated): the same bytes as a dense file
            path = os.path.join(root, *rel.split("/"))
            if os.path.isfile(path) and not os.path.islink(path) and os.stat(path).st_nlink == 1:
                os.remove(path)
                with open(path, "wb") as fd:
                    fd.truncate(len(b))
    return root, "payload"


def links(files):
    """What a recorded case needs besides names and contents: hard links (rel -> other name)
    and directories without any file (key with a trailing '/', value None)."""
    out = {rel: b.hardlink_of for rel, b in files if getattr(b, "hardlink_of", None)}
    out.update({rel: {"symlink": b.symlink_of} for rel, b in files if getattr(b, "symlink_of", None)})
    out.update({d + "/": None for d in getattr(files, "emptydirs", ())})
    return out


def files_of_case(case):
    """Rebuild the (relpath, Blob) list of a recorded case, hard links included."""
    out = gen.FileList()
    for rel, tok in case["files"]:
        blob = blob_from_token(tok)
        link = (case.get("links") or {}).get(rel)
        if isinstance(link, dict):
            blob.symlink_of = link["symlink"]
        elif link:
            blob.hardlink_of = link
        out.append((rel, blob))
    out.emptydirs = tuple(k[:-1] for k in (case.get("links") or {}) if k.endswith("/"))
    return out


class Prog(int):
    """A progress mode that also says how often the public assemble() is called again before
    write() (object reuse: the result must be the same as after the constructor's own call)."""
    again = 0
    abort_first = False


def variant(rng, root, single):
    """(spelling of the content path, progress mode): the creators must not care."""
    spelled = root
    if not single and rng.random() < 0.3:
        spelled = rng.choice([root + "/", root + "//", root + "/.", root.replace("/payload", "//payload")])
    prog = Prog(rng.choice([0, 0, 1, 2]))
    prog.again = rng.choice([0, 0, 0, 0, 1, 2])
    prog.abort_first = rng.random() < 0.12
    return spelled, prog


def leaves_of(tree, pre=()):
    out = []
    for k, v in tree.items():
        if b"" in v:
            out.append((pre + (k,), v[b""]))
        else:
            out.extend(leaves_of(v, pre + (k,)))
    return out


def shape(files, pl):
    return [pl] + sorted([len(b) % B, len(b) % pl, min(len(b) // pl, 9)] for _, b in files)


# ----------------------------------------------------------------------------- oracles

def check_v2_view(meta, files, pl, single, name):
    """C02 oracle. Returns None or a description of the deviation."""
    info = meta[b"info"]
    if info.get(b"meta version") != 2:
        return "meta version != 2"
    if info.get(b"piece length") != pl:
        return "piece length"
    tree = info.get(b"file tree")
    if not isinstance(tree, dict):
        return "no file tree"
    leaves = leaves_of(tree)
    if single:
        want = {(name.encode("utf8"),): files[0][1]}
    else:
        want = {comps(rel): b for rel, b in files}
    got_paths = [p for p, _ in leaves]
    if sorted(got_paths) != sorted(want) or len(got_paths) != len(set(got_paths)):
        return f"file tree leaves {got_paths!r} != directory {sorted(want)!r}"
    layers = meta.get(b"piece layers")
    if not isinstance(layers, dict):
        return "no piece layers dict"
    want_layers = {}
    for path, leaf in leaves:
        data = want[path].bytes()
        if leaf.get(b"length") != len(data):
            return f"length of {path!r}: {leaf.get(b'length')} != {len(data)}"
        if not data:
            if b"pieces root" in leaf:
                return f"empty file {path!r} carries a root"
            continue
        root, layer = refspec.v2_file(data, pl, B)
        root2, layer2 = refspec.v2_file_piecewise(data, pl, B)
        assert (root, layer) == (root2, layer2), "reference formulations disagree"
        if leaf.get(b"pieces root") != root:
            return f"pieces root of {path!r} (size {len(data)})"
        if set(leaf) - {b"length", b"pieces root"}:
            return f"unexpected leaf keys {set(leaf)!r}"
        if layer is not None:
            want_layers[root] = layer
    got_layers = {bytes(k): bytes(v) for k, v in layers.items()}
    if got_layers != want_layers:
        return (f"piece layers: keys {sorted(hx(k)[:8] for k in got_layers)} vs "
                f"{sorted(hx(k)[:8] for k in want_layers)} or values differ")
    return None


def check_hybrid_view(meta, files, pl, single, name):
    """C03 oracle. Returns None or a description of the deviation."""
    info = meta[b"info"]
    pieces = info.get(b"pieces")
    if not isinstance(pieces, (bytes, bytearray)) or len(pieces) % 20:
        return "pieces missing or not 20-byte hashes"
    if single:
        data = files[0][1].bytes()
        if info.get(b"length") != len(data):
            return f"length {info.get(b'length')} != {len(data)}"
        if b"files" in info:
            return "single file hybrid lists files"
        if bytes(pieces) != refspec.v1_pieces(data, pl):
            return "pieces are not the BEP 3 hashing of the file alone"
        return None
    entries = info.get(b"files")
    if not isinstance(entries, list):
        return "no files list"
    leaves = leaves_of(info[b"file tree"])
    nonpad = [(tuple(e[b"path"]), e[b"length"]) for e in entries if e.get(b"attr") != b"p"]
    if nonpad != [(p, leaf[b"length"]) for p, leaf in leaves]:
        return "non-padding entries differ from file tree leaves (order/lengths)"
    want = {comps(rel): b for rel, b in files}
    stream = b""
    for e in entries:
        if e.get(b"attr") == b"p":
            if not isinstance(e.get(b"path"), list) or not e[b"length"] > 0:
                return "malformed padding entry"
            stream += bytes(e[b"length"])
        else:
            if len(stream) % pl:
                return f"file {e[b'path']!r} starts at offset {len(stream)} not on a piece boundary"
            if tuple(e[b"path"]) not in want:
                return f"the file list names {e[b'path']!r}, which is not a file of the payload"
            data = want[tuple(e[b"path"])].bytes()
            if len(data) != e[b"length"]:
                return "entry length differs from file"
            stream += data
    if bytes(pieces) != refspec.v1_pieces(stream, pl):
        return "pieces are not the BEP 3 hashing of the listed stream (padding = zeros)"
    return None


def check_align_view(meta, files, pl, single, name):
    """C15 oracle."""
    info = meta[b"info"]
    pieces = bytes(info.get(b"pieces", b""))
    if single:
        data = files[0][1].bytes()
        if info.get(b"length") != len(data) or b"files" in info:
            return "single file: length/files"
        if pieces != refspec.v1_pieces(data, pl):
            return "single file not hashed as the file alone"
        return None
    entries = info.get(b"files")
    want = {comps(rel): b for rel, b in files}
    seen = []
    stream = b""
    prev_gap = 0
    for e in entries:
        if e.get(b"attr") == b"p":
            if e[b"length"] != prev_gap or prev_gap == 0:
                return f"padding entry of {e[b'length']} where the gap is {prev_gap}"
            stream += bytes(e[b"length"])
            prev_gap = 0
        else:
            if prev_gap:
                return f"missing padding entry of {prev_gap} before {e[b'path']!r}"
            path = tuple(e[b"path"])
            if path not in want or path in seen:
                return f"unexpected or duplicate entry {path!r}"
            seen.append(path)
            data = want[path].bytes()
            if e[b"length"] != len(data):
                return "entry length differs from file"
            if len(stream) % pl:
                return f"{path!r} does not start on a piece boundary"
            stream += data
            prev_gap = (-len(data)) % pl
    if sorted(seen) != sorted(want):
        return "not every file listed"
    if pieces != refspec.v1_pieces(stream, pl):
        return "pieces are not the BEP 3 hashing of the padded stream"
    if len(pieces) // 20 != -(-sum(e[b"length"] for e in entries) // pl):
        return "listed lengths do not account for the number of pieces"
    return None


# ----------------------------------------------------------------------------- model tie

def ask_hashers(drv, blob, pl, slot):
    drv.ask(f"v2 {B} 32 {pl // B} {blob.token()}", slot)


def parse_v2(out):
    """driver `v2` answer -> dict of tuples"""
    t = out.split(" ")
    if t[0] == "ERR":
        return None
    from harness.common import unhx
    res = {}
    i = 0
    while i < len(t):
        tag = t[i]
        if tag == "V2":
            res[tag] = (unhx(t[i + 1]), unhx(t[i + 2]))
            i += 3
        else:
            pad = None if t[i + 4] == "none" else int(t[i + 4])
            res[tag] = (unhx(t[i + 1]), unhx(t[i + 2]), unhx(t[i + 3]), pad)
            i += 5
    return res


def run_hashers(path, pl):
    """Run the three v2-capable hashers of the implementation on one file."""
    use_repo()
    from torrentfile.hasher import FileHasher, HasherHybrid, HasherV2
    from harness.common import quiet
    with quiet():
        a = HasherV2(path, pl, progress=0, progress_bar=_NoBar())
        h = HasherHybrid(path, pl, progress=0, progress_bar=_NoBar())
        res = {"V2": (a.root, a.piece_layer),
               # (the v1 digests as one byte string, whether the class keeps a list or a buffer)
               "HY": (h.root, h.piece_layer,
                      bytes(h.pieces) if isinstance(h.pieces, (bytes, bytearray)) else b"".join(h.pieces),
                      h.padding_file["length"] if h.padding_file else None)}
        for tag, hyb in (("F0", False), ("F1", True)):
            f = FileHasher(path, pl, progress=0, hybrid=hyb, progress_bar=_NoBar())
            layers, pieces = b"", b""
            for item in f:
                if hyb:
                    layers += item[0]
                    pieces += item[1]
                else:
                    layers += item
            res[tag] = (f.root, layers, pieces,
                        f.padding_file["length"] if f.padding_file else None)
    return res


class _NoBar:
    def update(self, _):
        pass

    def close_out(self):
        pass


# ----------------------------------------------------------------------------- whole metafile

KIND_TOKEN = {"v1": "v1", "v1align": "v1align", "v2": "v2class", "hy": "hybridclass",
              "a2": "asm2", "a3": "asm3"}


def _sl(v):
    if v is None:
        return "_"
    if isinstance(v, (list, tuple)):
        return "L" + ";".join(u.encode("utf8").hex() for u in v)
    return "S" + v.encode("utf8").hex() if v != "" else "E"


def ask_createfull(drv, slot, kind, files, pl, single, name, raw, opts=None, block=B):
    """Queue the Lean model of the whole creator on the same tree and options; the answer
    must be byte-identical to the metafile the implementation wrote (`raw`)."""
    from harness import refspec
    opts = opts or {}
    meta = refspec.lenient_decode(raw)
    created = meta.get(b"created by", b"")
    date = meta.get(b"creation date", 0)
    toks = ["createfull", KIND_TOKEN[kind], str(block), str(pl // block), hx(created), str(date),
            _sl(opts.get("announce")), _sl(opts.get("comment")) if opts.get("comment") else "_",
            "1" if opts.get("private") else "0",
            _sl(opts.get("source")) if opts.get("source") else "_",
            _sl(opts.get("url_list")), _sl(opts.get("httpseeds")),
            hx(name.encode("utf8")), "1" if single else "0",
            str(len(files) + (0 if single else len(getattr(files, "emptydirs", ()))))]
    for rel, blob in files:
        toks += [hx(rel.encode("utf8")), blob.token()]
    if not single:
        for d in getattr(files, "emptydirs", ()):
            toks += [hx((d + "/").encode("utf8")), "z0"]     # trailing '/': a directory without files
    drv.ask(" ".join(toks), slot)


def settle_createfull(run, answers):
    """answers: iterable of (slot, request, out) where slot = ("createfull", case, raw)."""
    from harness.common import MachineryError
    rest = []
    for slot, req, out in answers:
        if not (isinstance(slot, tuple) and slot and slot[0] == "createfull"):
            rest.append((slot, req, out))
            continue
        _, case, raw = slot
        run.model_checked += 1
        if out.startswith("ERR"):
            if "bad-op" in out or "bad-" in out:
                raise MachineryError(f"driver: {req[:80]} -> {out[:120]}")
            run.fail("impl-vs-model", case, {"correspondence": "Impl.create* (whole metafile)",
                                             "model": out[:60], "impl": "wrote a metafile"})
            continue
        if out.strip() != hx(raw):
            from harness import refspec
            try:
                a, b = refspec.lenient_decode(bytes.fromhex(out.strip())), refspec.lenient_decode(raw)
                keys = sorted(repr(k) for k in set(a) | set(b) if a.get(k) != b.get(k))
                ikeys = sorted(repr(k) for k in set(a.get(b"info", {})) | set(b.get(b"info", {}))
                               if a.get(b"info", {}).get(k) != b.get(b"info", {}).get(k))
            except Exception:
                keys, ikeys = ["undecodable"], []
            run.fail("impl-vs-model", case, {"correspondence": "Impl.create* (whole metafile bytes)",
                                             "top-level keys": keys, "info keys": ikeys})
    return rest


# ----------------------------------------------------------------------------- trees that change

def change_tree(root, before, after):
    """Turn the materialised directory payload `before` into `after` IN PLACE (plain files only):
    files that are gone are removed (the directories they were in stay), new files are written,
    files whose content differs are rewritten in place (same inode).  Only the directories that
    directly hold a changed entry are touched, so a change below the first level leaves the
    entry list of the root directory - and with it the root's own stat - exactly as it was."""
    old = {rel: b.token() for rel, b in before}
    new = {rel: b.token() for rel, b in after}
    for rel in old:
        if rel not in new:
            os.remove(os.path.join(root, *rel.split("/")))
    for rel, blob in after:
        if old.get(rel) != new[rel]:
            path = os.path.join(root, *rel.split("/"))
            os.makedirs(os.path.dirname(path), exist_ok=True)
            with open(path, "wb") as fd:
                fd.write(blob.bytes())
    for d in getattr(after, "emptydirs", ()):
        os.makedirs(os.path.join(root, *d.split("/")), exist_ok=True)


def changed_tree_shapes(pl=16384):
    """Fixed (label, before, after) pairs of directory payloads: the same path is turned into a
    torrent, the tree changes, and it is turned into a torrent again.  Most changes happen BELOW
    the first level (a file added / removed / grown / shrunk in a sub-directory, a new
    sub-sub-directory); two touch the top level as well."""
    R = Blob.rand
    top, a, b = ("top.bin", R(21, 20001)), ("cd1/t1", R(22, B + 1)), ("cd1/t2", R(23, 2 * pl + 5))
    deep, old = ("cd2/scans/front", R(24, B - 1)), ("cd2/scans/old", R(25, 999))
    base = [top, a, b, deep]
    out = [
        ("nested-added", base, base + [("cd1/t3", R(26, 2 * pl + 1)), ("cd2/scans/back", R(27, 1))]),
        ("nested-removed", base + [old], base),
        ("nested-grown", base, [top, ("cd1/t1", R(22, 3 * pl + 5)), b, deep]),
        ("nested-shrunk", base, [top, a, ("cd1/t2", R(23, 7)), deep]),
        ("nested-new-dir", base, base + [("cd2/scans/hi-res/p1", R(28, pl)), ("cd1/extras/x", R(29, 3))]),
        ("nested-emptied-dir", base + [old], [top, a, b]),
        ("nested-replaced", base + [old], base + [("cd2/scans/new", R(30, 999))]),
        ("top-added", base, base + [("zz-top2", R(31, pl + 1))]),
        ("top-and-nested", base + [old], [a, b, deep, ("another", R(32, 5)), ("cd1/t3", R(26, pl - 1))]),
    ]
    return [(label, gen.FileList(x), gen.FileList(y)) for label, x, y in out]


def earlier_version(rng, files):
    """A random earlier state of the directory payload `files` (plain files only) from which
    `files` is reached by changes below the first level: nested files that did not exist yet,
    had another length, or extra nested files that are gone now.  None when the tree has no
    plain nested file."""
    plain = lambda b: not getattr(b, "hardlink_of", None) and not getattr(b, "symlink_of", None)  # noqa: E731
    if not all(plain(b) for _, b in files):
        return None
    nested = [i for i, (rel, _) in enumerate(files) if "/" in rel]
    if not nested:
        return None
    before = list(files)
    done = 0
    for i in rng.sample(nested, rng.randrange(1, len(nested) + 1)):
        rel, blob = files[i]
        how = rng.choice(["absent", "other-length", "other-bytes", "sibling-gone"])
        if how == "absent" and sum(1 for x in before if x is not None) > 1:
            before[i] = None
        elif how == "other-length":
            before[i] = (rel, Blob.rand(rng.randrange(50, 99), rng.choice([0, 1, len(blob) // 2, len(blob) + 1, len(blob) + B])))
        elif how == "other-bytes" and len(blob):
            before[i] = (rel, Blob.rand(rng.randrange(50, 99), len(blob)))
        else:
            extra = rel.rsplit("/", 1)[0] + "/" + rng.choice(["gone-since", "~tmp", "0ld"])
            taken = {r for r, _ in files}
            if extra not in taken and not any(r.startswith(extra + "/") for r in taken) \
                    and not any(x is not None and x[0] == extra for x in before):
                before.append((extra, Blob.rand(rng.randrange(50, 99), rng.choice([1, 777, B + 1]))))
        done += 1
    out = gen.FileList([x for x in before if x is not None])
    out.emptydirs = tuple(getattr(files, "emptydirs", ()))
    if [(r, b.token()) for r, b in out] == [(r, b.token()) for r, b in files]:
        return None
    return out


# ----------------------------------------------------------------------------- creator objects that are used again

def tokens(files):
    return [(rel, b.token()) for rel, b in files]


def earlier_of(case):
    """The earlier tree of a recorded case (None when the case has none)."""
    if case.get("earlier") is None:
        return None
    return files_of_case({"files": case["earlier"],
                          "links": {d + "/": None for d in case.get("earlier_emptydirs", ())}})


def rewritten_shapes(pl):
    """Fixed (label, before, after, single) pairs for 'a creator object wrote a metafile, the
    payload changed, the object assembled and wrote again': between the two states the set of
    files longer than one piece changes in every possible way (a long file becomes short, a short
    one long, a long one gets other bytes of the same length, a long file appears / disappears,
    none before / none after)."""
    R = Blob.rand
    F = gen.FileList
    out = [
        ("mixed", F([("a", R(41, pl + 777)), ("d/b", R(42, 300)), ("c", R(43, 3 * pl + 5))]),
         F([("a", R(41, 200)), ("d/b", R(44, 2 * pl + 1)), ("c", R(45, 3 * pl + 5)), ("new/e", R(46, 5 * pl - 3))]), False),
        ("none-before", F([("a", R(41, pl)), ("d/b", R(42, 1))]),
         F([("a", R(41, pl + 1)), ("d/b", R(42, 2 * pl))]), False),
        ("none-after", F([("a", R(41, 2 * pl - 1)), ("d/b", R(42, 4 * pl))]),
         F([("a", R(41, pl - 1)), ("d/b", R(42, 0))]), False),
        ("long-file-gone", F([("a", R(41, 3 * pl)), ("d/b", R(42, 2 * pl + 1)), ("d/c", R(43, 5))]),
         F([("d/b", R(42, 2 * pl + 1)), ("d/c", R(43, 5))]), False),
        ("same-lengths-other-bytes", F([("a", R(41, 3 * pl + 1)), ("d/b", R(42, B + 1))]),
         F([("a", R(47, 3 * pl + 1)), ("d/b", R(48, B + 1))]), False),
        ("single-shorter", [("f.bin", R(41, 3 * pl + 5))], [("f.bin", R(49, pl - 1))], True),
        ("single-longer", [("f.bin", R(41, 300))], [("f.bin", R(50, 2 * pl + 1))], True),
        ("single-other-bytes", [("f.bin", R(41, 4 * pl))], [("f.bin", R(51, 4 * pl))], True),
    ]
    return out


def other_state(rng, files, pl, single):
    """Another random state of the payload `files` (plain files only; None otherwise): files
    with other bytes, other lengths (boundary classes), files that were not there yet, files
    that are gone since."""
    if any(getattr(b, "hardlink_of", None) or getattr(b, "symlink_of", None) for _, b in files):
        return None
    out = []
    for rel, blob in files:
        how = "resized" if single else rng.choice(["same", "other-bytes", "resized", "resized", "absent"])
        if how == "other-bytes" and len(blob):
            out.append((rel, Blob.rand(rng.randrange(60, 99), len(blob))))
        elif how == "resized":
            size, _ = gen.pick_size(rng, B, pl, allow_empty=not single, big=False)
            out.append((rel, Blob.rand(rng.randrange(60, 99), size)))
        elif how != "absent":
            out.append((rel, blob))
    if not single and (not out or rng.random() < 0.3):
        taken = {r for r, _ in files}
        for extra in ("gone-since.bin", "sub/gone-since.bin"):
            if extra not in taken and not any(r.startswith(extra + "/") or extra.startswith(r + "/") for r in taken):
                size, _ = gen.pick_size(rng, B, pl, allow_empty=False, big=False)
                out.append((extra, Blob.rand(rng.randrange(60, 99), size)))
                break
    if not out or tokens(out) == tokens(files):
        return None
    if not single and all(len(b) == 0 for _, b in out):
        out[0] = (out[0][0], Blob.rand(61, B + 1))
    res = gen.FileList(out)
    res.emptydirs = tuple(getattr(files, "emptydirs", ()))
    return res


def run_rewritten(run, prefix, before, after, pl, single, tag, kinds, oracle, again=1):
    """One creator object per kind is built on the payload `before` and writes its metafile; the
    payload then changes into `after`; every object assembles again (`again` times) and writes
    again to the same output path.  `oracle(meta, files, pl, single, name)` judges the first
    metafile against `before` and the second against `after`."""
    from harness.common import quiet
    case = {"links": {}, "files": tokens(after), "pl": pl, "single": single, "gen": tag,
            "earlier": tokens(before), "earlier_emptydirs": list(getattr(before, "emptydirs", ())),
            "scenario": "written, payload changed, assembled and written again", "again": again}
    with sandbox(prefix) as box:
        root, name = materialize(box, before, single)
        objs = []
        for kind in kinds:
            out = os.path.join(box, kind + ".torrent")
            try:
                cls, extra = impl.creator(kind)
                with quiet():
                    obj = cls(path=root, outfile=out, piece_length=pl, progress=0, **extra)
                    obj.write()
                with open(out, "rb") as fd:
                    raw = fd.read()
            except Exception as exc:
                run.fail("impl-vs-spec", dict(case, creator=kind, stage="first"), {"raised": repr(exc)})
                continue
            why = oracle(impl.decode(raw), before, pl, single, name)
            if why:
                run.fail("impl-vs-spec", dict(case, creator=kind, stage="first"), {"why": why})
            objs.append((kind, obj, out))
        if single:
            with open(root, "wb") as fd:
                fd.write(after[0][1].bytes())
        else:
            change_tree(root, before, after)
        for kind, obj, out in objs:
            try:
                with quiet():
                    for _ in range(again):
                        obj.assemble()
                    obj.write()
                with open(out, "rb") as fd:
                    raw = fd.read()
            except Exception as exc:
                run.fail("impl-vs-spec", dict(case, creator=kind, stage="second"), {"raised": repr(exc)})
                continue
            why = oracle(impl.decode(raw), after, pl, single, name)
            if why:
                run.fail("impl-vs-spec", dict(case, creator=kind, stage="second"), {"why": why})
    return case

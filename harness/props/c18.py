"""C18 - inspecting commands are read-only; create writes one file; rename never clobbers."""
import os
import random
import shutil

from harness import effects, impl, refspec
from harness.common import Driver, MachineryError, Run, hx, sandbox, snapshot, write_tree
from harness.props import metas

RULE = ("sandboxes with a payload (intact or damaged), its metafile, bystander files (one "
        "literally named '.torrent' in the working and output directories); recheck/check, "
        "info, magnet/m (all version requests), create/new/implicit create with -o file, "
        "-o dir/, default output, rename (free and occupied target) in every CLI spelling; "
        "recursive snapshot (names, sizes, SHA-256, modes) before/after, the audit-hook "
        "trace of mutating operations (inspecting commands are fenced: any mutation is "
        "refused and reported), compared with the model's operation list; distinct by "
        "(command spelling, version, damaged?, output kind); non-trivial when content is "
        "damaged or bystander files are present")


def changed(before, after):
    return sorted(k for k in set(before) | set(after) if before.get(k) != after.get(k))


def mutating_tokens(trace, box):
    """audit trace -> model vocabulary with sandbox-relative paths"""
    out = []
    for e in trace:
        paths = [os.path.relpath(p, box) for p in e[1:]]
        kind = {"append": "touch", "create": "create", "truncate": "create",
                "open-write": "create", "remove": "remove", "rename": "replace"}.get(e[0], e[0])
        out.append((kind,) + tuple(paths))
    return out


def run_case(run, drv, case_seed):
    rng = random.Random(case_seed)
    with sandbox("c18") as box:
        work = os.path.join(box, "work")
        outdir = os.path.join(box, "out")
        os.makedirs(work)
        os.makedirs(outdir)
        m = metas.make_meta(rng, box, via_cli=False)
        for d in (work, outdir, box):
            if rng.random() < 0.6:
                with open(os.path.join(d, ".torrent"), "wb") as fd:
                    fd.write(b"precious bystander")
        write_tree(os.path.join(box, "bystanders"), [("x/y.bin", b"yy"), ("z", b"")])
        if rng.random() < 0.6:
            with open(m["path"] + ".part", "wb") as fd:       # somebody's file, or a leftover
                fd.write(b"d4:infod4:name4:parte" + b"e")
        damaged = rng.random() < 0.5
        if damaged:
            rel, blob = rng.choice(m["files"])
            target = m["root"] if m["single"] else os.path.join(m["root"], *rel.split("/"))
            data = blob.bytes()
            if data and rng.random() < 0.6:
                with open(target, "wb") as fd:
                    fd.write(data[:len(data) // 2])
            elif not m["single"]:
                os.remove(target)
            else:
                damaged = False
        name = os.path.basename(m["root"])
        cmds = []
        meta = m["path"]
        content = rng.choice([m["root"], os.path.dirname(m["root"])])
        cmds.append(("ro", [rng.choice(["recheck", "check"]), meta, content], None))
        cmds.append(("ro", ["info", meta], None))
        if rng.random() < 0.4:
            # the content is not there at all (path named like the torrent, or a parent without it)
            ghost = os.path.join(work, "downloads-" + str(case_seed % 97))
            cmds.append(("ro", [rng.choice(["recheck", "check"]), meta,
                                rng.choice([os.path.join(ghost, name), ghost])], None))
        ver = rng.choice(["0", "1", "2", "3"])
        cmds.append(("ro", [rng.choice(["magnet", "m"]), meta] +
                     (["--meta-version", ver] if rng.random() < 0.7 else []), None))
        outkind = rng.choice(["file", "dir", "default", "existing", "dir-noslash", "dangling-link", "link-to-file"])
        sub = rng.choice([["create"], ["new"], []])
        opts = ["--prog", rng.choice(["0", "1", "2"]), "--meta-version", str(m["version"])]
        if rng.random() < 0.3:
            opts += ["--magnet"] if False else []
        if outkind == "file":
            out, expect = ["-o", os.path.join(outdir, "made.torrent")], os.path.join(outdir, "made.torrent")
        elif outkind == "existing":
            out, expect = ["-o", m["path"]], m["path"]
        elif outkind in ("dangling-link", "link-to-file"):
            # the output path is a symbolic link: the one file written is what it points to,
            # the link itself stays
            expect = os.path.join(outdir, "behind-the-link.torrent")
            link = os.path.join(outdir, "link.torrent")
            if os.path.lexists(link):
                os.remove(link)
            if os.path.lexists(expect):
                os.remove(expect)
            if outkind == "link-to-file":
                with open(expect, "wb") as fd:
                    fd.write(b"older, longer contents " * 200)
            os.symlink(expect, link)
            out = ["-o", link]
        elif outkind == "dir":
            out, expect = ["-o", outdir + "/"], os.path.join(outdir, name + ".torrent")
        elif outkind == "dir-noslash":      # an existing directory named without separator
            out, expect = ["-o", outdir], os.path.join(outdir, name + ".torrent")
        else:
            out, expect = [], os.path.join(work, name + ".torrent")
        if os.path.exists(m["root"]):
            cmds.append(("create", sub + opts + out + [m["root"]], expect))
            if outkind in ("file", "existing", "link-to-file") and rng.random() < 0.6:
                # a repeat that is refused (bad piece length / missing content): nothing changes,
                # in particular the metafile of the first run stays
                bad = rng.choice([["--piece-length", "13"], ["--piece-length", "12345"]])
                wrong = m["root"] if rng.random() < 0.7 else m["root"] + "-no-such-content"
                cmds.append(("create-refused", sub + opts + bad + out + [wrong], expect))
            if outkind in ("file", "existing") and not m["single"] and rng.random() < 0.5:
                # ... or fails only AFTER hashing: a payload entry whose name cannot be encoded
                cmds.append(("create-unencodable", sub + opts + out + [m["root"]], expect))
        case = {"case_seed": case_seed, "version": m["version"], "damaged": damaged,
                "outkind": outkind}
        old_cwd = os.getcwd()
        os.chdir(work)
        try:
            for kind, argv, expect in cmds:
                if kind == "create-unencodable":
                    badname = os.path.join(os.fsencode(m["root"]), b"caf\xe9-latin1.bin")
                    with open(badname, "wb") as fd:
                        fd.write(b"x" * 10)
                    kind = "create-refused"
                before = snapshot(box)
                fence = [os.path.join(box, "no-such-dir")] if kind == "ro" else [box]
                raised = None
                glob = rng.choice([[], [], ["-q"], ["-v"]])
                argv = glob + list(argv)
                with effects.traced(fence=fence, record_reads=True, read_root=box) as tr:
                    try:
                        impl.cli(list(argv))
                    except effects.Escape as exc:
                        raised = "Escape"
                    except BaseException as exc:  # noqa
                        raised = type(exc).__name__
                after = snapshot(box)
                diff = changed(before, after)
                c = dict(case, argv=[a.replace(box, "$BOX") for a in argv])
                if not os.path.isfile(m["path"]) and not os.path.islink(m["path"]):
                    # (reported below as a change) put the metafile back for the steps that follow
                    with open(m["path"], "wb") as fd:
                        fd.write(m["raw"])
                if kind == "ro":
                    if tr.escapes or diff:
                        run.fail("impl-vs-spec", c, {"why": "inspecting command modified the filesystem",
                                                     "ops": [str(e) for e in tr.escapes[:3]], "changed": diff[:5]})
                    word = [a for a in argv if not a.startswith("-")][0]
                    drv.ask(f"ops {('recheck' if word in ('recheck', 'check') else 'magnet' if word in ('magnet', 'm') else 'info')} {hx(b'm')}",
                            ("ro", c, mutating_tokens(tr.mutating(), box)))
                elif kind == "create-refused":
                    if not raised:
                        pass        # whether the repeat is refused is C12's business, not C18's
                    elif diff:
                        run.fail("impl-vs-spec", c, {"why": "a refused create changed the filesystem",
                                                     "changed": diff[:6], "raised": raised})
                    run.case(["create-refused", m["version"], outkind], True, sample=c, classes=["create-refused"])
                    stray = os.path.join(os.fsencode(m["root"]), b"caf\xe9-latin1.bin")
                    if os.path.exists(stray):
                        os.remove(stray)
                    continue
                else:
                    want = [os.path.relpath(expect, box)]
                    if raised == "Escape":
                        run.fail("impl-vs-spec", c, {"why": "create tried to write outside the sandbox",
                                                     "ops": [str(e) for e in tr.escapes[:3]]})
                    elif raised and not set(diff) <= set(want):
                        run.fail("impl-vs-spec", c, {"why": "failed create changed something other "
                                                            "than the output metafile",
                                                     "changed": diff[:6], "raised": raised})
                    elif raised:
                        pass
                    elif diff != want and not (diff == [] and outkind == "existing"):
                        run.fail("impl-vs-spec", c, {"why": "create changed something other than "
                                                            "exactly the output metafile",
                                                     "changed": diff[:6], "expected": want})
                    probe_exists = os.path.exists(os.path.join(
                        outdir if outkind == "dir" else work, ".torrent")) and outkind in ("dir", "default")
                    outtok = "none" if not out else hx(out[1].encode())
                    if not raised and outkind not in ("dir-noslash", "dangling-link", "link-to-file"):
                        drv.ask(f"ops create {outtok} {hx(work.encode())} {hx(name.encode())} "
                                f"{1 if probe_exists or outkind == 'existing' else 0}",
                                ("create", c, [(t[0],) + tuple(os.path.join(box, p) for p in t[1:])
                                               for t in mutating_tokens(tr.mutating(), box)]))
                run.case([" ".join(argv[:2]) if argv and argv[0] in ("-q", "-v") else
                          argv[0] if argv and not argv[0].startswith("-") else "implicit",
                          m["version"], damaged, outkind if kind == "create" else None],
                         damaged or True, sample=c, classes=[kind, "raised:" + str(raised)])
            # the library creator without an output path: exactly <cwd>/<name>.torrent is written
            if os.path.exists(m["root"]) and rng.random() < 0.5:
                default_out = os.path.join(work, name + ".torrent")
                if os.path.lexists(default_out):
                    os.remove(default_out)
                before = snapshot(box)
                raised = None
                kind = {1: "v1", 2: rng.choice(["a2", "v2"]), 3: rng.choice(["a3", "hy"])}[m["version"]]
                with effects.traced(fence=[box]) as tr:
                    try:
                        cls, extra = impl.creator(kind)
                        from harness.common import quiet
                        with quiet():
                            cls(path=m["root"], piece_length=m["pl"], progress=0, **extra).write()
                    except BaseException as exc:  # noqa
                        raised = type(exc).__name__
                diff = changed(before, snapshot(box))
                c = dict(case, library_default_output=kind)
                # (a creator that raises - e.g. for a directory that holds no file any more - is not what
                # C18 judges; then nothing may have changed)
                if (raised and diff) or (not raised and diff != [os.path.relpath(default_out, box)]):
                    run.fail("impl-vs-spec", c, {"why": "library create without an output path did not write exactly "
                                                        "<cwd>/<name>.torrent", "changed": diff[:5], "raised": raised})
                run.case(["lib-default-out", kind], True, sample=c, classes=["lib-default-out"])
                if os.path.lexists(default_out):
                    os.remove(default_out)
            # rename: free target, then occupied target
            for occupied in (False, True, rng.choice(["dir", "link-to-dir", "link-to-file", "link-to-self"])):
                src = os.path.join(outdir, "torename.torrent")
                shutil.copy(m["path"], src)
                rname = name
                if rng.random() < 0.4:
                    # release-style names: characters that mean something to glob / fnmatch / re
                    rname = rng.choice(["[grp] show - 01 [1080p]", "a*b", "what?", "x[1]", "[a-z]", "{a,b}",
                                        "^a$", "a+b", "(x)", "~", "%s", "{}",
                                        # names that are paths: only the FILE NAME may change, the
                                        # metafile stays in its directory (judged by base name)
                                        "../evil", "sub/evil", "../../up/evil", os.path.join(work, "abs-evil"),
                                        "d/"])
                    with open(src, "wb") as fd:
                        fd.write(refspec.encode(refspec.ref_metafile(rname, [((rname,), b"abc")], 16384, 1,
                                                                     single=True)) +
                                 rng.choice([b"", b"", b"\n", b"trailing bytes"]))     # bytes are bytes
                newp = os.path.join(outdir, os.path.basename(rname.rstrip("/")) + ".torrent")
                if os.path.lexists(newp) and occupied is not True:
                    os.remove(newp)
                if occupied == "link-to-self":
                    os.symlink(os.path.basename(src), newp)     # the new name is a link to the metafile itself
                elif occupied in ("dir", "link-to-dir", "link-to-file"):
                    # the target name is taken by something that is not a regular file
                    aside = os.path.join(outdir, "aside-" + occupied)
                    if occupied == "dir":
                        write_tree(newp, [("keep", b"a directory in the way")])
                    elif occupied == "link-to-dir":
                        write_tree(aside, [("keep", b"behind a link")])
                        os.symlink(aside, newp)
                    else:
                        write_tree(outdir, [("aside-file", b"behind a link")])
                        os.symlink(os.path.join(outdir, "aside-file"), newp)
                elif occupied:
                    with open(newp, "wb") as fd:
                        if rng.random() < 0.5:
                            fd.write(b"occupied - must survive")
                        else:
                            # same size and same timestamps as the source, different bytes
                            fd.write(bytes(b ^ 1 for b in open(src, "rb").read()))
                    st = os.stat(src)
                    os.utime(newp, ns=(st.st_atime_ns, st.st_mtime_ns))
                before = snapshot(box)
                raised = None
                with effects.traced(fence=[box]) as tr:
                    try:
                        impl.cli(["rename", src])
                    except BaseException as exc:  # noqa
                        raised = type(exc).__name__
                after = snapshot(box)
                rel_src, rel_new = os.path.relpath(src, box), os.path.relpath(newp, box)
                c = dict(case, rename={"occupied": occupied})
                if occupied:
                    if changed(before, after):
                        run.fail("impl-vs-spec", c, {"why": "rename with an occupied target changed "
                                                            "the filesystem", "changed": changed(before, after)})
                else:
                    ok = changed(before, after) == sorted([rel_src, rel_new]) and \
                        rel_src not in after and after.get(rel_new) == before.get(rel_src)
                    if not ok:
                        run.fail("impl-vs-spec", c, {"why": "rename did not move exactly the file, "
                                                            "bytes unchanged", "changed": changed(before, after),
                                                     "raised": raised})
                # the name handling of rename (Impl.renameTarget): where the file ends up, for any name
                moved_to = [k for k in after if k not in before]
                drv.ask(f"renametarget {hx(src.encode())} {hx(rname.encode('utf8'))}",
                        ("renametarget", c, (None if occupied else
                                             (os.path.join(box, moved_to[0]) if len(moved_to) == 1 else None), raised)))
                drv.ask(f"ops rename {hx(src.encode())} {hx(newp.encode('utf8'))} 1 {1 if occupied else 0}",
                        ("rename", c, [(t[0],) + tuple(os.path.join(box, p) for p in t[1:])
                                       for t in mutating_tokens(tr.mutating(), box)]))
                run.case(["rename", occupied, m["version"]], True, sample=c, classes=["rename"])
                for p in (src, newp, os.path.join(outdir, "aside-file"), os.path.join(outdir, "aside-link-to-dir")):
                    if os.path.islink(p) or os.path.isfile(p):
                        os.remove(p)
                    elif os.path.isdir(p):
                        shutil.rmtree(p)
            rename_torrent_payload(run, box, outdir, case)
        finally:
            os.chdir(old_cwd)


def rename_torrent_payload(run, box, outdir, case):
    """The payload of the torrent is itself a file named *.torrent lying next to the metafile:
    rename must not replace it."""
    payload = os.path.join(outdir, "inner.torrent")
    with open(payload, "wb") as fd:
        fd.write(b"d4:infod4:name1:xee" * 50)
    meta = os.path.join(outdir, "zz-meta.torrent")
    impl.create("v1", payload, meta, piece_length=16384)
    before = snapshot(box)
    raised = None
    with effects.traced(fence=[box]) as tr:
        try:
            impl.cli(["rename", meta])
        except BaseException as exc:  # noqa
            raised = type(exc).__name__
    after = snapshot(box)
    rel = os.path.relpath(payload, box)
    if after.get(rel) != before.get(rel):
        run.fail("impl-vs-spec", dict(case, rename="payload named *.torrent"),
                 {"why": "rename replaced an existing file", "raised": raised})
    moved = [k for k in after if k not in before]
    gone = [k for k in before if k not in after]
    if not raised and not (len(moved) == 1 and len(gone) == 1 and after[moved[0]] == before[gone[0]]):
        run.fail("impl-vs-spec", dict(case, rename="payload named *.torrent"),
                 {"why": "rename did not move exactly the metafile", "new": moved, "gone": gone})
    run.case(["rename", "torrent-payload"], True, classes=["rename"])
    for p in list(moved) + [os.path.relpath(meta, box), rel]:
        full = os.path.join(box, p)
        if os.path.isfile(full):
            os.remove(full)


# --------------------------------------------------------------------------- output paths behind link chains

CHAIN_RULE = ("; create (CLI create/new/implicit, with and without -q/-v, and the creator classes of "
              "all three versions) with an output path that is a chain of 1..3 symbolic links "
              "(relative and absolute targets, links in the output directory and elsewhere, final "
              "target existing / not existing / in another directory, output path spelled absolute "
              "or relative to the working directory): the snapshot may differ in exactly the entry "
              "at the end of the chain, a regular file; every link is still the same link")

CHAIN_VIAS = ["create", "new", "implicit", "-q create", "-q new", "-q implicit", "-v create",
              "lib:v1", "lib:v2", "lib:hy", "lib:a2", "lib:a3"]
CHAIN_DIRS = ["out", "out/releases", "links", "work"]
CHAIN_NAMES = ["latest.torrent", "current.torrent", "stable.torrent", "alias.torrent"]


def chain_shape(via, version, dirs, styles, final_dir, final, spelled):
    """dirs[i] / styles[i]: where link i lives (dirs[0] is the directory of the output path) and
    whether its target is written relative to its own directory or absolute."""
    return {"via": via, "version": version, "dirs": list(dirs), "styles": list(styles),
            "final_dir": final_dir, "final": final, "spelled": spelled}


def fixed_chain_shapes():
    """Deterministic shapes: every way of running create meets every chain length with an absent
    and with an existing final target; target style, directories and spelling rotate."""
    shapes = []
    n = 0
    for length in (1, 2, 3):
        for final in ("absent", "existing"):
            for via in CHAIN_VIAS:
                for final_dir in ("out/releases", "out"):
                    style = (["rel"] * length, ["abs"] * length,
                             [("rel", "abs")[(i + n) % 2] for i in range(length)])[n % 3]
                    # the links after the first one: beside the first, or in a directory of their own
                    dirs = ["out"] + [("out", "links")[(n // 2 + i) % 2] for i in range(1, length)]
                    if n % 4 == 1:
                        dirs = ["out"] * length
                    shapes.append(chain_shape(via, 1 + (n // 2 + n // 24) % 3, dirs, style, final_dir, final,
                                              "abs" if n % 5 else "rel"))
                    n += 1
    # the plain case first: out/latest.torrent -> current.torrent -> releases/v2.torrent (absent)
    shapes.insert(0, chain_shape("create", 1, ["out", "out"], ["rel", "rel"], "out/releases", "absent", "abs"))
    return shapes


def random_chain_shape(rng):
    length = rng.choice([1, 2, 2, 3, 3, 4])
    return chain_shape(rng.choice(CHAIN_VIAS), rng.choice([1, 2, 3]),
                       ["out" if rng.random() < 0.7 else rng.choice(CHAIN_DIRS)] +
                       [rng.choice(CHAIN_DIRS) for _ in range(length - 1)],
                       [rng.choice(["rel", "abs"]) for _ in range(length)],
                       rng.choice(CHAIN_DIRS), rng.choice(["absent", "absent", "existing", "missing-dir"]),
                       rng.choice(["abs", "rel"]))


def chain_case(run, shape):
    """One create whose output path is the first link of a chain; judged by the snapshot only."""
    from harness.common import quiet
    with sandbox("c18") as box:
        work = os.path.join(box, "work")
        for d in CHAIN_DIRS:
            os.makedirs(os.path.join(box, d), exist_ok=True)
        name = "payload-chain"
        root = os.path.join(work, name)
        write_tree(root, [("a.bin", bytes(range(256)) * 79), ("sub/b.bin", b"\x01\x02\x03\x04" * 4096),
                          ("sub/c", b"")])
        # bystanders wherever a link or the final target lives
        for d in CHAIN_DIRS:
            write_tree(os.path.join(box, d), [("notes.txt", b"keep me\n"), (".torrent", b"precious bystander")])
        final_dir = shape["final_dir"] + ("/not-there" if shape["final"] == "missing-dir" else "")
        # (one name per position: two links of the chain in one directory never collide)
        nodes = [os.path.join(box, d, CHAIN_NAMES[i] if i < len(CHAIN_NAMES) else f"hop{i}.torrent")
                 for i, d in enumerate(shape["dirs"])]
        final = os.path.join(box, final_dir, "v2.torrent")
        nodes.append(final)
        if shape["final"] == "existing":
            with open(final, "wb") as fd:
                fd.write(b"older, longer contents " * 300)
        for i, style in enumerate(shape["styles"]):
            target = nodes[i + 1]
            if style == "rel":
                target = os.path.relpath(target, os.path.dirname(nodes[i]))
            os.symlink(target, nodes[i])
        outpath = nodes[0] if shape["spelled"] == "abs" else os.path.relpath(nodes[0], work)
        c = {"link_chain": shape}
        old_cwd = os.getcwd()
        os.chdir(work)
        try:
            before = snapshot(box)
            raised = None
            with effects.traced(fence=[box]) as tr:
                try:
                    if shape["via"].startswith("lib:"):
                        cls, extra = impl.creator(shape["via"][4:])
                        with quiet():
                            cls(path=root, outfile=outpath, progress=0, **extra).write()
                    else:
                        words = shape["via"].split()
                        argv = [w for w in words if w.startswith("-")] + \
                               [w for w in words if not w.startswith("-") and w != "implicit"] + \
                               ["--prog", "0", "--meta-version", str(shape["version"]), "-o", outpath, root]
                        c["argv"] = [a.replace(box, "$BOX") for a in argv]
                        impl.cli(argv)
                except effects.Escape:
                    raised = "Escape"
                except BaseException as exc:  # noqa
                    raised = type(exc).__name__
            after = snapshot(box)
        finally:
            os.chdir(old_cwd)
        diff = changed(before, after)
        want = os.path.relpath(final, box)
        links = {k: v for k, v in before.items() if v[0] == "l"}
        broken = sorted(k for k, v in links.items() if after.get(k) != v)
        if raised == "Escape":
            run.fail("impl-vs-spec", c, {"why": "create tried to write outside the sandbox",
                                         "ops": [str(e) for e in tr.escapes[:3]]})
        elif broken:
            run.fail("impl-vs-spec", c, {"why": "create through a chain of links removed or replaced a link",
                                         "links": {k: [before[k], after.get(k)] for k in broken[:4]},
                                         "changed": diff[:6], "raised": raised})
        elif raised and not set(diff) <= {want}:
            run.fail("impl-vs-spec", c, {"why": "failed create changed something other than the output metafile",
                                         "changed": diff[:6], "raised": raised})
        elif not raised and (diff != [want] or after[want][0] != "f"):
            run.fail("impl-vs-spec", c, {"why": "create changed something other than exactly the one file at "
                                                "the end of the link chain",
                                         "changed": {k: [before.get(k), after.get(k)] for k in diff[:6]},
                                         "expected": [want]})
        elif not raised:
            # "the output metafile": the one file written describes the payload
            with open(final, "rb") as fd:
                raw = fd.read()
            try:
                meta = dict(refspec.lenient_decode(raw))
                ok = dict(meta[b"info"]).get(b"name") == name.encode()
            except Exception:  # noqa
                ok = False
            if not ok:
                run.fail("impl-vs-spec", c, {"why": "the file at the end of the link chain is not the metafile "
                                                    "of the payload", "bytes": raw[:60].hex()})
        run.case(["link-chain", shape["via"], len(shape["styles"]), shape["final"],
                  "".join(s[0] for s in shape["styles"]), shape["final_dir"],
                  len(set(shape["dirs"])) > 1, shape["spelled"]],
                 True, sample=c, classes=["link-chain", "link-chain:len=" + str(len(shape["styles"])),
                                          "link-chain:" + shape["final"], "raised:" + str(raised)])


def link_chains(run, tier, rng):
    for shape in fixed_chain_shapes():
        chain_case(run, shape)
    for _ in range(30 if tier == "quick" else 600):
        chain_case(run, random_chain_shape(rng))


def run(tier, seed, replay=None):
    impl.use_repo()
    run = Run("C18", tier, seed, RULE + CHAIN_RULE)
    drv = Driver()
    if replay and "link_chain" in replay["case"]:
        seeds = []
        chain_case(run, replay["case"]["link_chain"])
    else:
        seeds = [replay["case"]["case_seed"]] if replay else \
            [run.rng.randrange(10 ** 9) for _ in range(40 if tier == "quick" else 400)]
    for s in seeds:
        run_case(run, drv, s)
    if not replay:
        link_chains(run, tier, random.Random(run.rng.randrange(10 ** 9)))
    for (kind, case, got), req, out in drv.run():
        if out.startswith("ERR"):
            if os.environ.get("VERIF_DEV") and "bad-op" in out:
                continue
            raise MachineryError(f"driver: {req[:60]} -> {out[:100]}")
        run.model_checked += 1
        if kind == "renametarget":
            moved, raised = got
            if moved is not None:
                want = "ok " + hx(moved.encode("utf8"))
                if out.strip() != want:
                    run.fail("impl-vs-model", case, {"correspondence": "Impl.renameTarget (where the metafile ends up)",
                                                     "model": out[:120], "impl": moved})
            elif out.startswith("err:badname") and not raised:
                run.fail("impl-vs-model", case, {"correspondence": "Impl.renameTarget (refused names)",
                                                 "model": out[:120], "impl": "no error"})
            continue
        if out.startswith("err:"):
            model = []
        else:
            toks = [t.split(":") for t in out.split()] if out.strip() != "-" else []
            model = [(t[0],) + tuple(bytes.fromhex(x).decode() for x in t[1:]) for t in toks
                     if t[0] in ("create", "replace", "remove", "touch")]
        if model != [tuple(g) for g in got]:
            run.fail("impl-vs-model", case, {"correspondence": f"Impl.{kind}Ops vs audit trace",
                                             "model": model, "impl": got})
    return run.finish()

"""C14 - rebuild only adds verified copies; it never damages sources or existing files."""
import os
import random

from harness import effects, impl
from harness.common import Run, guarded, sandbox, snapshot
from harness.props import rebuilding as rb
from harness.props import creation as cr

RULE = ("torrents and search trees as in C13 plus decoys (same name and size, different "
        "bytes, incl. decoys none of whose bytes verify), INCOMPLETE search trees in which a file "
        "is present only as such a decoy before / between / after files that are intact (fixed "
        "shapes for v1, aligned v1, v2, hybrid, library and command line, and random ones) "
        "and destinations that already hold "
        "correct / wrong-same-size / shorter / unrelated files; rebuild run twice into the "
        "same destination; snapshots (names, sizes, SHA-256, modes) of search directories, "
        "metafiles and destination before/after, plus the audit-hook trace of mutating "
        "operations; distinct by (versions, residues, pre-population kinds, decoy kinds); "
        "non-trivial when the destination is pre-populated or a decoy is present")


def prepopulate(rng, dest, torrents):
    kinds = []
    for t in torrents:
        for p, blob in rb.torrent_files(t):
            r = rng.random()
            if r > 0.5:
                continue
            data = blob.bytes()
            path = os.path.join(dest, t["name"]) if t["single"] else \
                os.path.join(dest, t["name"], *p.split("/"))
            os.makedirs(os.path.dirname(path), exist_ok=True)
            if r < 0.15:
                content, k = data, "correct"
            elif r < 0.3 and data:
                content, k = bytes(x ^ 0x0F for x in data), "wrong-same-size"
            elif r < 0.4 and len(data) > 1:
                content, k = data[:len(data) // 2], "shorter"
            elif r < 0.5 and len(data) > 1:
                content, k = bytes(x ^ 0x3C for x in data[:len(data) // 2]), "shorter-unrelated"
            else:
                continue
            with open(path, "wb") as fd:
                fd.write(content)
            if rng.random() < 0.5:
                os.utime(path, (1_000_000_000, 1_000_000_000))      # much older than the sources
                k += "-old"
            kinds.append(k)
    if rng.random() < 0.5:
        os.makedirs(os.path.join(dest, "other"), exist_ok=True)
        with open(os.path.join(dest, "other", "keep.txt"), "wb") as fd:
            fd.write(b"keep me")
        kinds.append("unrelated")
    return sorted(set(kinds))


def expectations(torrents, sdirs, placed, metas=()):
    """What the property allows to appear in the destination: the candidates by (file name,
    length), the decoys none of whose bytes verify, and per assigned destination path the
    recorded name / length / described bytes, and where its bytes lie relative to the pieces
    (v1: offset in the stream; v2 / hybrid: pieces start with the file)."""
    from harness import refspec
    exp = {"candidates": {}, "assigned": {}, "recorded": {}, "originals": {}, "spans": {},
           "total_decoys": [open(p, "rb").read() for k, p in placed if k in ("total", "decoy-only")]}
    for s in sdirs:
        for base, _, files in os.walk(s):
            for f in files:
                data = open(os.path.join(base, f), "rb").read()
                exp["candidates"].setdefault((f, len(data)), []).append(data)
    for t in torrents:
        for p, blob in rb.torrent_files(t):
            rel = t["name"] if t["single"] else os.path.join(t["name"], *p.split("/"))
            exp["assigned"][rel] = (p.split("/")[-1], len(blob))
            exp["recorded"][rel] = len(blob)
            exp["originals"][rel] = blob.bytes()
    for t, (_, raw) in zip(torrents, metas):
        info = refspec.lenient_decode(raw)[b"info"]
        if b"file tree" in info or b"files" not in info:
            continue
        off = 0
        for e in info[b"files"]:
            rel = os.path.join(t["name"], *[c.decode("utf8") for c in e[b"path"]])
            exp["spans"][rel] = (off, info[b"piece length"])
            off += e[b"length"]
    return exp


def no_byte_can_verify(data, original, span):
    """True when `data` differs from the described bytes inside EVERY piece that covers part of
    the file - then no piece holding any of its bytes can verify (a file that agrees with the
    payload on the whole part some piece covers may verify there, whatever else it holds)."""
    off, pl = span
    cuts = [0] + [c for c in range(pl - off % pl, len(data), pl)] + [len(data)]
    return all(data[a:b] != original[a:b] for a, b in zip(cuts, cuts[1:]) if b > a)


def judged_round(box, sdirs, dest, exp, do_rebuild):
    """One rebuild between two snapshots; returns the reason of a violation or None.  Only
    effects are judged: `do_rebuild` must not let implementation exceptions escape."""
    candidates, total_decoys = exp["candidates"], exp["total_decoys"]
    assigned, recorded, originals = exp["assigned"], exp["recorded"], exp["originals"]
    outside0 = {d: snapshot(d) for d in sdirs + [os.path.join(box, "metas")]}
    dest0 = snapshot(dest)
    with effects.traced() as tr:
        do_rebuild()
    why = None
    for d in outside0:
        if snapshot(d) != outside0[d]:
            why = f"search directory or metafiles changed: {os.path.basename(d)}"
    dest1 = snapshot(dest)
    for rel, old in dest0.items():
        new = dest1.get(rel)
        if old[0] == "f" and rel in recorded and old[1] >= recorded[rel] and new != old:
            why = f"destination file {rel} had its full length and was altered"
        if rel not in assigned and new != old and old[0] == "f":
            why = f"unrelated destination file {rel} altered"
        if new is None:
            why = f"destination entry {rel} removed"
    for rel, new in dest1.items():
        if new[0] != "f" or dest0.get(rel) == new:
            continue
        data = open(os.path.join(dest, rel), "rb").read()
        if rel not in assigned:
            why = f"wrote {rel}, which the metafile does not assign"
        elif data not in candidates.get(assigned[rel], []):
            why = f"{rel} is not a copy of a search file with the recorded name and length"
        elif data in total_decoys:
            why = f"{rel}: a decoy none of whose bytes verify was placed"
        elif rel in originals and data != originals[rel] and \
                no_byte_can_verify(data, originals[rel], exp["spans"].get(rel, (0, 16384))):
            why = (f"{rel}: placed a same-named same-sized file that differs from the payload "
                   "described for that path inside every piece, so none of its bytes verify")
    for ev in tr.mutating():
        for pth in ev[1:] if ev[0] in ("rename", "move") else ev[-1:]:
            if pth and not (pth == dest or pth.startswith(dest + os.sep)):
                why = f"mutating operation outside the destination: {ev}"
    return why


def run_case(run, case_seed, tier):
    rng = random.Random(case_seed)
    torrents = [rb.gen_torrent(rng, str(i), tier) for i in range(rng.choice([1, 1, 2]))]
    case = {"case_seed": case_seed, "torrents": torrents}
    with sandbox("c14") as box:
        try:
            metas = [rb.write_metafile(box, t, i) for i, t in enumerate(torrents)]
        except Exception as exc:
            from harness.common import raised_in_repo
            if raised_in_repo(exc):
                return          # creation failed: no metafile to judge rebuild with
            raise
        sdirs, placed = rb.scatter(rng, box, torrents, decoys="safe")
        case["incomplete"] = rng.random() < 0.3
        if case["incomplete"]:
            # an incomplete search tree: some files are present only as a same-size decoy none of
            # whose bytes verify (the intact copy is overwritten in place)
            for i, (k, path) in enumerate(placed):
                if k == "orig" and os.path.getsize(path) and rng.random() < 0.4:
                    data = open(path, "rb").read()
                    with open(path, "wb") as fd:
                        fd.write(total_decoy(data))
                    placed[i] = ("decoy-only", path)
        dest = os.path.join(box, "dest")
        os.makedirs(dest)
        pre = prepopulate(rng, dest, torrents)
        exp = expectations(torrents, sdirs, placed, metas)
        for round_no in (1, 2):
            why = judged_round(box, sdirs, dest, exp, lambda: rb.rebuild_with_model(
                box, [m for m, _ in metas], sdirs, dest, DRV[0], dict(case, round=round_no)))
            if why:
                run.fail("impl-vs-spec", dict(case, round=round_no), {"why": why})
                break
    kinds = sorted({k for k, _ in placed if k != "orig"})
    run.case([[t["version"], t["single"],
               sorted(len(cr.blob_from_token(tok)) % t["pl"] for _, tok in t["files"])]
              for t in torrents] + [pre, kinds], bool(pre or kinds), sample=case,
             classes=[f"v{t['version']}" for t in torrents] + pre + kinds)


DRV = [None]


def releases(run, seed):
    """Two releases of one torrent (same name, same relative path, the newer file longer),
    rebuilt one after the other into the same destination: the search copies of BOTH must
    stay byte-identical (a destination that shares storage with a source must never be
    written through)."""
    import random as _r
    rng = _r.Random(seed)
    for version in (1, 2, 3):
        with sandbox("c14r") as box:
            old = {"name": "rel", "files": [("data.bin", "r1.20000"), ("note", "r2.10")], "pl": 16384,
                   "version": version, "single": False, "source": "own"}
            new = {"name": "rel", "files": [("data.bin", "r3.41000"), ("note", "r2.10")], "pl": 16384,
                   "version": version, "single": False, "source": "own"}
            metas = [rb.write_metafile(box, old, 0), rb.write_metafile(box, new, 1)]
            s_old, s_new = os.path.join(box, "search-old"), os.path.join(box, "search-new")
            from harness.common import write_tree
            write_tree(s_old, [(p, b.bytes()) for p, b in rb.torrent_files(old)])
            write_tree(s_new, [(p, b.bytes()) for p, b in rb.torrent_files(new)])
            dest = os.path.join(box, "dest")
            os.makedirs(dest)
            before = {d: snapshot(d) for d in (s_old, s_new, os.path.join(box, "metas"))}
            case = {"scenario": "releases", "version": version}
            for mpath, sdirs in ((metas[0][0], [s_old]), (metas[1][0], [s_new, s_old])):
                rb.rebuild_with_model(box, [mpath], sdirs, dest, DRV[0], case)
            for d, snap in before.items():
                if snapshot(d) != snap:
                    run.fail("impl-vs-spec", case, {"why": f"{os.path.basename(d)} changed"})
            run.case(["releases", version], True, sample=case, classes=["releases"])


def standing(run):
    """Two fixed scenarios about files that are ALREADY complete in the destination:
    (vanish) a candidate of another file disappears between the indexing of the search
    directories and the rebuild; (part) the torrent lists both `x.bin` and `x.bin.part`, the
    latter is already complete in the destination and only `x.bin` is found this time.  In both
    the complete destination file must be exactly what it was."""
    from harness.common import quiet, write_tree
    from torrentfile.rebuild import Assembler
    for version in (1, 2, 3):
        for scen in ("vanish", "part"):
            with sandbox("c14s") as box:
                files = [("a.bin", "r1.20000"), ("b.bin", "r2.300")] if scen == "vanish" else \
                    [("x.bin", "r1.20000"), ("x.bin.part", "r2.30000")]
                t = {"name": "pack", "files": files, "pl": 16384, "version": version, "single": False,
                     "source": "own"}
                mpath, raw = rb.write_metafile(box, t, 0)
                search = os.path.join(box, "search")
                dest = os.path.join(box, "dest")
                data = {p: b.bytes() for p, b in rb.torrent_files(t)}
                keep = files[0][0] if scen == "vanish" else "x.bin.part"
                other = [p for p in data if p != keep][0]
                write_tree(search, [(other, data[other])] + ([(keep, data[keep])] if scen == "vanish" else []))
                write_tree(os.path.join(dest, "pack"), [(keep, data[keep])])
                st = os.stat(os.path.join(dest, "pack", keep))
                case = {"scenario": "standing-" + scen, "version": version}
                try:
                    with quiet():
                        asm = Assembler([mpath], [search], dest)
                        if scen == "vanish":
                            os.remove(os.path.join(search, other))
                        asm.assemble_torrents()
                except Exception:
                    pass        # a crash is not what C14 judges; what is on disk afterwards is
                path = os.path.join(dest, "pack", keep)
                now = open(path, "rb").read() if os.path.isfile(path) else None
                if now != data[keep]:
                    run.fail("impl-vs-spec", case, {"why": "a destination file that already had its full "
                                                           "recorded length was altered or removed",
                                                    "file": keep, "now": None if now is None else len(now)})
                run.case(["standing", scen, version], True, sample=case, classes=["standing-" + scen])


def total_decoy(data):
    """Same size, every byte different: none of its bytes verify."""
    return bytes(x ^ 0xFF for x in data)


# (label, files in listing order, names present ONLY as a decoy, names absent altogether)
DECOY_ONLY_SHAPES = [
    ("first-shares-pieces", [("a.bin", "r1.40000"), ("b.bin", "r2.50000"), ("c.bin", "r3.30000")], ["a.bin"], []),
    ("middle-shares-pieces", [("a.bin", "r1.20000"), ("b.bin", "r2.25000"), ("c.bin", "r3.60000")], ["b.bin"], []),
    ("middle-whole-pieces", [("a.bin", "r1.16384"), ("b.bin", "r2.32768"), ("c.bin", "r3.20000"),
                             ("d.bin", "r4.16384")], ["b.bin"], []),
    ("two-decoy-only-one-absent", [("a.bin", "r1.100"), ("b.bin", "r2.33000"), ("c.bin", "r3.16384"),
                                   ("d.bin", "r4.5"), ("e.bin", "r5.70000"), ("sub/f.bin", "r6.16385")],
     ["b.bin", "d.bin"], ["c.bin"]),
    ("last-is-decoy-only", [("a.bin", "r1.30000"), ("b.bin", "r2.20000")], ["b.bin"], []),
]


def decoy_only(run):
    """Fixed scenarios with an INCOMPLETE search tree: some file of the torrent is present only
    as a same-name same-size decoy none of whose bytes verify (two such candidates, in two
    places), other files are intact, in every position relative to the pieces that do verify
    (before / between / after; sharing pieces with its neighbours or occupying whole pieces).
    Library and command line, first and second rebuild into the same destination; v1, aligned
    v1, v2, hybrid; singly and as a batch of two metafiles."""
    from harness.common import write_tree, raised_in_repo
    variants = [(1, {}), (1, {"align": True}), (2, {}), (3, {})]
    for label, files, decoyed, absent in DECOY_ONLY_SHAPES:
        for version, opts in variants:
            for via in ("library", "cli"):
                if via == "cli" and (version != 1 or opts) and label != "middle-shares-pieces":
                    continue
                with sandbox("c14d") as box:
                    t = {"name": "pack", "files": files, "pl": 16384, "version": version, "single": False,
                         "source": "own", "create_opts": dict(opts)}
                    torrents = [t]
                    if label == "two-decoy-only-one-absent":
                        torrents.append({"name": "second", "files": [("m.bin", "r7.20000"), ("n.bin", "r8.40000"),
                                                                      ("o.bin", "r9.100")],
                                         "pl": 16384, "version": version, "single": False, "source": "own",
                                         "create_opts": dict(opts)})
                    case = {"scenario": "decoy-only-file", "shape": label, "version": version, "opts": opts,
                            "via": via}
                    try:
                        metas = [rb.write_metafile(box, x, i) for i, x in enumerate(torrents)]
                    except Exception as exc:
                        if raised_in_repo(exc):
                            continue
                        raise
                    search = os.path.join(box, "search")
                    placed = []
                    for x in torrents:
                        only_decoy = decoyed if x is t else ["m.bin"]
                        for p, blob in rb.torrent_files(x):
                            fname, data = p.split("/")[-1], blob.bytes()
                            if fname in absent:
                                continue
                            if fname in only_decoy:
                                write_tree(search, [("0-early/" + fname, total_decoy(data)),
                                                    ("zz-late/deep/" + fname, bytes((b + 1) & 0xFF for b in data))])
                                placed += [("decoy-only", os.path.join(search, "0-early", fname)),
                                           ("decoy-only", os.path.join(search, "zz-late", "deep", fname))]
                            else:
                                write_tree(search, [("k/" + x["name"] + "/" + p, data)])
                                placed.append(("orig", os.path.join(search, "k", x["name"], *p.split("/"))))
                    dest = os.path.join(box, "dest")
                    os.makedirs(dest)
                    exp = expectations(torrents, [search], placed, metas)
                    mpaths = [m for m, _ in metas]

                    def go(round_no):
                        if via == "library":
                            rb.rebuild_with_model(box, mpaths, [search], dest, DRV[0], dict(case, round=round_no))
                            return
                        try:
                            impl.cli(["rebuild", "-m"] + mpaths + ["-c", search, "-d", dest])
                        except Exception as exc:
                            if not (raised_in_repo(exc) or type(exc).__name__ == "CliExit"):
                                raise       # a crash of the implementation is not what C14 judges
                    for round_no in (1, 2):
                        why = judged_round(box, [search], dest, exp, lambda: go(round_no))
                        if why:
                            run.fail("impl-vs-spec", dict(case, round=round_no), {"why": why})
                            break
                run.case(["decoy-only", label, version, bool(opts), via], True, sample=case,
                         classes=["decoy-only-file", f"v{version}", via])


def run(tier, seed, replay=None):
    impl.use_repo()
    run = Run("C14", tier, seed, RULE)
    from harness.common import Driver
    DRV[0] = Driver()
    seeds = ([replay["case"]["case_seed"]] if "case_seed" in replay["case"] else []) if replay else \
        [run.rng.randrange(10 ** 9) for _ in range(70 if tier == "quick" else 700)]
    for s in seeds:
        run_case(run, s, tier)
    if not replay or replay["case"].get("scenario") == "releases":
        releases(run, seed)
    if not replay or str(replay["case"].get("scenario", "")).startswith("standing"):
        standing(run)
    if not replay or replay["case"].get("scenario") == "decoy-only-file":
        decoy_only(run)
    rb.settle_match(run, DRV[0].run())
    return run.finish()

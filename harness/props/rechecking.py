"""
Shared engine of the recheck properties C04, C05, C16: build a payload, obtain a metafile
(torrentfile's own creators or the reference encoder), optionally damage the payload, run
Checker and compare with the reference piece-by-piece verification and the Lean models.
"""
import os
import shutil

from harness import gen, impl, refspec
from harness.common import Blob, hx, sandbox, write_tree
from harness.props import creation as cr

B = 16384
SOURCES = ["own", "own", "ref", "ref-notrail", "ref-nolen"]


SCALED = [False]
PARENT_LIKE_NAME_P = 0.15


import contextlib


@contextlib.contextmanager
def scaled(block=64):
    """Scaled mode: BLOCK_SIZE patched in this process, tiny piece lengths, reference-encoder
    metafiles only (the creators insist on >= 16 KiB); the Lean models are parametric in B."""
    global B
    old = B
    B = block
    SCALED[0] = True
    impl.set_block(block)
    try:
        yield
    finally:
        B = old
        SCALED[0] = False
        impl.set_block(16384)


ROOT_NAMES = ["payload"] * 6 + ["Top 100% Hits", "pay load", "%s", "p%d", ".hidden", "-dash", "päyload",
                                 "a&b=d", "[grp] x", "p\\q", "{0}", "100%"]


def make_case(rng, tier, damage, max_damage=4):
    case = _make_case(rng, tier, damage, max_damage)
    if rng.random() < 0.25 and not case.get("parent_like_name"):
        # next to the payload, in the same parent directory, sits an INTACT copy whose name
        # differs only in letter case (Album / album): it is not the torrent's content
        case["case_sibling"] = True
    if rng.random() < 0.2:
        case["via_symlink"] = True
    elif rng.random() < 0.25:
        case["reuse_checker"] = True
    return case


def _make_case(rng, tier, damage, max_damage=4):
    pl = gen.pick_pl(rng, B)
    root_name = rng.choice(ROOT_NAMES)
    version = rng.choice([1, 2, 3])
    single = rng.random() < 0.2
    want_source = rng.choice(SOURCES)
    if want_source == "ref-nolen":          # BEP 52 single file without info.length
        version, single = 2, True
    elif want_source == "ref-notrail":      # hybrid without trailing padding entry
        version, single = 3, False
    if single:
        size, _ = gen.pick_size(rng, B, pl, allow_empty=False, big=(tier != "quick"))
        files = [(rng.choice(gen.NAMES), gen.pick_blob(rng, size))]
    else:
        files, _ = gen.tree(rng, B, pl, big=(tier != "quick"))
        if rng.random() < 0.15 and len(files) > 1:
            # an entry named like the payload root itself (album/album/...); a lone file named
            # like the root would be the BEP 52 single-file shape (ambiguous), so not alone
            rel, blob = files[0]
            clash = root_name + "/" + rel if rng.random() < 0.5 else root_name
            if not any(r == clash or r.startswith(clash + "/") or clash.startswith(r + "/")
                       for r, _ in files[1:]):
                files[0] = (clash, blob)
    tail_empty = False
    if not single and version == 1 and rng.random() < 0.15:
        # the v1 stream ENDS with empty files (they contribute no block to the last piece)
        for nm in ["~~~/zz-empty", "~~~~"][:rng.choice([1, 2])]:
            files.append((nm, Blob.rand(1, 0)))
        tail_empty = True
    if not single and len(files) >= 2 and rng.random() < 0.2:
        # byte-identical copies (equal roots / equal pieces): the later one is what gets damaged
        order = sorted(range(len(files)), key=lambda i: files[i][0].split("/"))
        src = files[order[0]][1]
        if len(src):
            files[order[-1]] = (files[order[-1]][0], src)
            twin_rel = files[order[-1]][0]
        else:
            twin_rel = None
    else:
        twin_rel = None
    source = want_source
    if SCALED[0] and source == "own":
        source = "ref"
    if source == "ref-notrail" and (version != 3 or single):
        source = "ref"
    if source == "ref-nolen" and (version != 2 or not single):
        source = "ref"
    creator = {1: ["v1"], 2: ["a2", "v2"], 3: ["a3", "hy"]}[version]
    case = {"files": [(rel, b.token()) for rel, b in files], "pl": pl, "version": version,
            "single": single, "source": source, "creator": rng.choice(creator),
            "via_parent": rng.random() < 0.5, "damage": []}
    if root_name != "payload" and not single:
        case["root_name"] = root_name
    if version == 1 and source == "own" and not single and rng.random() < 0.35:
        case["align"] = True        # create --align: BEP 47 padding entries in a v1 file list
    dv = 3 if case.get("align") else version      # an aligned v1 stream is laid out like a hybrid's
    if source.startswith("ref") and version in (1, 3) and not single and rng.random() < 0.5:
        case["attrs"] = {rel: rng.choice(["x", "h", "xh"]) for rel, _ in files if rng.random() < 0.5}
    if not damage and rng.random() < PARENT_LIKE_NAME_P:
        # only for intact content (C05 root-or-parent): with damage, which of two same-named
        # nested directories "is" the payload has no right answer (root_or_parent's side
        # conditions), so C04/C16 address damaged payloads by an unambiguous path
        case["parent_like_name"] = True
    if version == 1 and source == "ref" and not single and pl > B and rng.random() < 0.4:
        case["pad_to"] = B          # padding entries that align to 16 KiB inside larger pieces
    if version == 1 and source == "ref" and not single and rng.random() < 0.5:
        order = [rel for rel, _ in files]
        rng.shuffle(order)
        case["v1_order"] = order
    if damage and tail_empty and not case.get("v1_order") and not case.get("align") and rng.random() < 0.7:
        # damage confined to the last (usually incomplete) piece, which the empty files follow
        rel, blob = [(r, b) for r, b in gen.utf8_sorted(files) if len(b)][-1]
        data = blob.bytes()
        if data[-1]:
            case["damage"] = [rng.choice([["flip", rel, len(data) - 1], ["trunc", rel, len(data) - 1]])]
        else:
            case["damage"] = [["flip", rel, len(data) - 1]]
    elif damage and source == "ref-nolen" and len(files[0][1]) > 2 * pl and rng.random() < 0.7:
        whole = (len(files[0][1]) // pl) * pl
        to = rng.choice([whole - pl, whole] if whole < len(files[0][1]) else [whole - pl])
        if any(files[0][1].bytes()[to:]):
            case["damage"] = [["trunc", files[0][0], to]]
    elif damage and any(b.kind == "h" and len(b) > 1 for _, b in files) and rng.random() < 0.7:
        # self-similar content (one byte or one block repeated) cut short: the lost bytes look
        # exactly like the ones read just before them
        rel, blob = rng.choice([(r, b) for r, b in files if b.kind == "h" and len(b) > 1])
        n = len(blob)
        cuts = [c for c in (((n - 1) // pl) * pl, n // 2, n - 1, pl) if 0 < c < n] or [n - 1]
        case["damage"] = [["trunc", rel, rng.choice(cuts)]]
    elif damage and version == 1 and not single and not case.get("align") and rng.random() < 0.15:
        order = ordered(files, 1, case.get("v1_order"))
        off, last = 0, None
        for rel, b in order:
            if len(b):
                last = (rel, off, len(b))
            off += len(b)
        if last and last[2] > 1:
            rel, start, n = last
            end = ((start + n - 1) // pl) * pl          # last piece boundary inside the file
            cut = end - start if end > start else n // 2
            data = dict(files)[rel].bytes()
            if 0 < cut < n and any(data[cut:]):
                case["damage"] = [["trunc", rel, cut]]
        if not case["damage"]:
            case["damage"] = make_damage(rng, files, pl, dv, single, 1, case.get("v1_order"))
    elif damage and twin_rel is not None and rng.random() < 0.7:
        n = len(dict(files)[twin_rel])
        case["damage"] = [["flip", twin_rel, rng.choice([0, n - 1, n // 2])]]
    elif damage:
        case["damage"] = make_damage(rng, files, pl, dv, single,
                                     rng.randrange(1, max_damage + 1), case.get("v1_order"),
                                     zero_ok=case.get("zero_ok", False))
    if case["damage"] and not case.get("zero_ok"):
        orig = {rel: b.bytes() for rel, b in files}
        state = apply_damage(files, case["damage"])
        if not absent_regions_nonzero(files, orig, state, pl, dv, single, case.get("v1_order")):
            # the targeted damage would leave an absent all-zero region: the property excludes it
            case["damage"] = make_damage(rng, files, pl, dv, single, 1, case.get("v1_order"))
    return case


def ordered(files, version, v1_order=None):
    if version == 1 and v1_order:
        by = dict(files)
        return [(rel, by[rel]) for rel in v1_order]
    return gen.utf8_sorted(files) if version == 1 else gen.v2_sorted(files)


def make_damage(rng, files, pl, version, single, count, v1_order=None, zero_ok=False):
    """Damage operations whose affected *pieces* each lose or change a non-zero described
    byte (the property excludes absent all-zero regions)."""
    ops = []
    state = {rel: b.bytes() for rel, b in files}
    orig = dict(state)
    tries = 0
    while len(ops) < count and tries < 60:
        tries += 1
        rel = rng.choice(sorted(state))
        data = orig[rel]
        cur = state[rel]
        if not data and not zero_ok:
            continue
        kind = rng.choice(["flip", "flip", "trunc", "trunc", "remove"]) if data else "remove"
        if kind == "flip":
            if cur is None or not cur:
                continue
            off = rng.choice([0, len(cur) - 1, rng.randrange(len(cur)),
                              min(len(cur) - 1, (len(cur) // pl) * pl)])
            arr = bytearray(cur)
            arr[off] ^= 0xFF
            new = bytes(arr)
            op = ["flip", rel, off]
        elif kind == "trunc":
            if cur is None or not cur:
                continue
            to = rng.choice([0, len(cur) - 1, (len(cur) // pl) * pl, max(0, len(cur) - pl),
                             rng.randrange(len(cur)), max(0, ((len(cur) - 1) // B) * B)])
            if to >= len(cur):
                continue
            new = cur[:to]
            op = ["trunc", rel, to]
        else:
            if cur is None:
                continue
            new = None
            op = ["remove", rel]
        trial = dict(state)
        trial[rel] = new
        if not zero_ok and not absent_regions_nonzero(files, orig, trial, pl, version, single, v1_order):
            continue
        state = trial
        ops.append(op)
    return ops


def absent_regions_nonzero(files, orig, state, pl, version, single, v1_order=None):
    """For every piece (v1 stream view and per-file view) that an absent range touches, the
    absent range within that piece must contain a non-zero described byte."""
    # per-file view
    for rel, data in orig.items():
        cur = state[rel]
        have = 0 if cur is None else len(cur)
        if have >= len(data):
            continue
        for start in range((have // pl) * pl, len(data), pl):
            lo, hi = max(start, have), min(start + pl, len(data))
            if lo < hi and not any(data[lo:hi]):
                return False
    # v1 stream view
    order = [rel for rel, _ in ordered(files, 1, v1_order)] if version == 1 else \
        [rel for rel, _ in ordered(files, version)]
    off = 0
    absent = []
    for rel in order:
        data = orig[rel]
        cur = state[rel]
        have = 0 if cur is None else len(cur)
        if have < len(data):
            absent.append((off + have, off + len(data)))
        off += len(data)
        if version == 3 and not single:
            off += (-len(data)) % pl
    stream = {}
    off = 0
    for rel in order:
        stream[rel] = off
        off += len(orig[rel]) + ((-len(orig[rel])) % pl if version == 3 and not single else 0)
    for lo, hi in absent:
        for start in range((lo // pl) * pl, hi, pl):
            a, b = max(start, lo), min(start + pl, hi)
            # described bytes in [a,b): find owning file
            seg = b""
            for rel in order:
                fo = stream[rel]
                d = orig[rel]
                x, y = max(a, fo), min(b, fo + len(d))
                if x < y:
                    seg += d[x - fo:y - fo]
            if not any(seg):
                return False
    return True


def apply_damage(files, ops):
    state = {rel: b.bytes() for rel, b in files}
    for op in ops:
        rel = op[1]
        if op[0] == "flip":
            arr = bytearray(state[rel])
            arr[op[2]] ^= 0xFF
            state[rel] = bytes(arr)
        elif op[0] == "trunc":
            state[rel] = state[rel][:op[2]]
        else:
            state[rel] = None
    return state


def build(box, case):
    """Materialise payload + metafile. Returns (metafile path, content root, parent, name,
    files, raw metafile bytes)."""
    files = [(rel, cr.blob_from_token(t)) for rel, t in case["files"]]
    single, version, pl = case["single"], case["version"], case["pl"]
    pname = "parent"
    if case.get("parent_like_name"):
        # the parent directory happens to carry the torrent's own name (album/album/...)
        pname = files[0][0].split("/")[-1] if single else case.get("root_name", "payload")
    parent = os.path.join(box, pname)
    os.makedirs(parent)
    if single:
        name = files[0][0].split("/")[-1]
        write_tree(parent, [(name, files[0][1].bytes())])
    else:
        name = case.get("root_name", "payload")
        write_tree(os.path.join(parent, name), [(rel, b.bytes()) for rel, b in files])
    root = os.path.join(parent, name)
    if case.get("case_sibling") and name.swapcase() != name and name.swapcase() != pname:
        sib = os.path.join(parent, name.swapcase())
        if single:
            write_tree(parent, [(name.swapcase(), files[0][1].bytes())])
        else:
            write_tree(sib, [(rel, b.bytes()) for rel, b in files])
    mpath = os.path.join(box, "m.torrent")
    if case["source"] == "own":
        raw = impl.create(case["creator"], root, mpath, piece_length=pl,
                          **({"align": True} if case.get("align") else {}))
    else:
        order = ordered(files, version, case.get("v1_order"))
        ref = refspec.ref_metafile(
            name, [((name,) if single else tuple(rel.split("/")), b.bytes()) for rel, b in order],
            pl, version, single=single, trailing_pad=(case["source"] != "ref-notrail"),
            with_length=(case["source"] != "ref-nolen"), block=B,
            attrs={tuple(rel.split("/")): a for rel, a in (case.get("attrs") or {}).items()},
            pad_to=case.get("pad_to"),
            extra={"announce": "http://t/a", "created by": "ref"})
        raw = refspec.encode(ref)
        with open(mpath, "wb") as fd:
            fd.write(raw)
    return mpath, root, parent, name, files, raw


def damage_disk(root, single, state):
    for rel, data in state.items():
        path = root if single else os.path.join(root, *rel.split("/"))
        if data is None:
            os.remove(path)
            # directories emptied by the removal go too (the model's disk is a tree of files;
            # an empty directory cannot be expressed in the request to the Lean Checker model)
            d = os.path.dirname(path)
            while not single and d != root and d.startswith(root) and not os.listdir(d):
                os.rmdir(d)
                d = os.path.dirname(d)
        else:
            with open(path, "wb") as fd:
                fd.write(data)


def reference(raw, single, state, files):
    meta = refspec.strict_decode(raw) if _canonical(raw) else _as_strict(raw)

    def read(comps):
        if single:
            return state[files[0][0]]
        rel = "/".join(c.decode("utf8") for c in comps)
        return state.get(rel)
    return refspec.ref_verify(meta, read, B)


def _canonical(raw):
    try:
        refspec.strict_decode(raw)
        return True
    except refspec.BErr:
        return False


def _as_strict(raw):
    return refspec.lenient_decode(raw)


def percent(results):
    good, total = refspec.ref_percent(results)
    return (good / total) * 100 if total else 0


def nontrivial_damage(case):
    files = case["files"]
    first = ordered([(r, cr.blob_from_token(t)) for r, t in files], case["version"],
                    case.get("v1_order"))[0][0]
    for op in case["damage"]:
        if op[1] != first:
            return True
        if op[0] == "flip" and op[2] >= case["pl"]:
            return True
        if op[0] == "trunc" and op[2] >= case["pl"]:
            return True
    return False


def empty_run_cases(damage):
    """Fixed shapes (independent of the seed): runs of 1..4 empty files at the start, in the
    middle and at the end of the listing, for every version and both kinds of metafile; with
    `damage`, one damage confined to a file listed AFTER the run (or, for a trailing run, to the
    last non-empty file)."""
    pl = B
    cases = []
    n = 0
    for version in (1, 2, 3):
        for k in (1, 2, 3, 4):
            for where in ("start", "middle", "end"):
                n += 1
                data = [("a-data", Blob.rand(900 + n, pl + 77)), ("m-data", Blob.rand(901 + n, 2 * pl + 5)),
                        ("z-data", Blob.rand(902 + n, 3 * pl - 1))]
                prefix = {"start": "0-", "middle": "b-", "end": "~-"}[where]
                empties = [(f"{prefix}empty{i}", Blob.rand(1, 0)) for i in range(k)]
                files = data + empties
                source = "own" if (n + k) % 2 else "ref"
                creator = {1: ["v1"], 2: ["a2", "v2"], 3: ["a3", "hy"]}[version][n % (1 if version == 1 else 2)]
                case = {"files": [(rel, b.token()) for rel, b in files], "pl": pl, "version": version,
                        "single": False, "source": source, "creator": creator,
                        "via_parent": bool(n % 2), "damage": [], "empty_run": [where, k]}
                if damage:
                    target = "z-data" if where != "end" else "m-data"
                    size = len(dict(files)[target])
                    op = [["flip", target, size - 1], ["trunc", target, size - 1], ["remove", target],
                          ["flip", target, 0]][(n + k) % 4]
                    case["damage"] = [op]
                cases.append(case)
    return cases

"""C10 - all creators and all hashers agree on the same payload."""
import os

from harness import gen, impl, refspec
from harness.common import Driver, Run, hx, sandbox
from harness.props import creation as cr
from harness.props.c02 import scaled_sweep, settle_model

RULE = ("trees / single files as in C02; pairs (TorrentAssembler v2, TorrentFileV2) and "
        "(TorrentAssembler hybrid, TorrentFileHybrid) must give identical encoded info and "
        "piece layers; triples (HasherV2, HasherHybrid, FileHasher +-hybrid) identical root, "
        "layer, v1 pieces, padding on every file; scaled mode sweeps block counts; non-trivial "
        "as C02/C03")


def run_case(run, drv, files, pl, single, tag):
    case = {"links": cr.links(files),
            "files": [(rel, b.token()) for rel, b in files], "pl": pl, "single": single,
            "gen": tag}
    with sandbox("c10") as box:
        root, name = cr.materialize(box, files, single)
        metas = {}
        inside = not single and run.rng.random() < 0.15
        junk = b"d4:infod4:name3:olde7:comment23:left by an earlier rune"
        mfiles = files
        if inside:
            # the output path lies INSIDE the payload and already exists (a second run of
            # `create -o album/album.torrent album`): it is a payload file like any other
            case["out_inside_payload"] = True
            from harness.common import Blob
            mfiles = gen.FileList(list(files) + [("album.torrent", Blob.hexb(junk))])
            mfiles.emptydirs = getattr(files, "emptydirs", ())
        for kind in ("a2", "v2", "a3", "hy"):
            out = os.path.join(box, kind + ".torrent")
            if inside:
                out = os.path.join(root, "album.torrent")
                with open(out, "wb") as fd:
                    fd.write(junk)
            try:
                spelled, prog = cr.variant(run.rng, root, single)
                metas[kind] = impl.create(kind, spelled, out, piece_length=pl, progress=prog)
                cr.ask_createfull(drv, ("createfull", dict(case, creator=kind), metas[kind]), kind,
                                  mfiles, pl, single, name, metas[kind])
            except Exception as exc:
                run.fail("impl-vs-spec", dict(case, creator=kind), {"raised": repr(exc)})
        for a, b in (("a2", "v2"), ("a3", "hy")):
            if a in metas and b in metas:
                ia, ib = refspec.info_span(metas[a]), refspec.info_span(metas[b])
                la = impl.decode(metas[a]).get(b"piece layers")
                lb = impl.decode(metas[b]).get(b"piece layers")
                if ia != ib:
                    run.fail("impl-vs-spec", dict(case, pair=[a, b]),
                             {"why": "info dictionaries differ",
                              "a": _diff(impl.decode(metas[a])[b"info"],
                                         impl.decode(metas[b])[b"info"])})
                elif {bytes(k): bytes(v) for k, v in la.items()} != \
                        {bytes(k): bytes(v) for k, v in lb.items()}:
                    run.fail("impl-vs-spec", dict(case, pair=[a, b]),
                             {"why": "piece layers differ"})
        for rel, blob in files:
            if not len(blob):
                continue
            path = root if single else os.path.join(root, *rel.split("/"))
            got = cr.run_hashers(path, pl)
            norm = {t: tuple(bytes(x) if isinstance(x, (bytes, bytearray)) else x for x in v)
                    for t, v in got.items()}
            if not (norm["V2"] == norm["HY"][:2] == norm["F0"][:2] == norm["F1"][:2]
                    and norm["HY"][2:] == norm["F1"][2:]):
                run.fail("impl-vs-spec", dict(case, file=rel),
                         {"why": "hashers disagree", "size": len(blob)})
            cr.ask_hashers(drv, blob, pl, (case, rel, got, blob, pl))
            break
    nt = any(len(b) % pl or (-(-len(b) // cr.B)) & ((-(-len(b) // cr.B)) - 1)
             for _, b in files if len(b))
    run.case(cr.shape(files, pl) + [single], nt, sample=case,
             classes=[f"files={len(files)}", f"pl={pl}", "single" if single else "dir"])


def _diff(a, b):
    return {hx(k): "differs" for k in set(a) | set(b) if a.get(k) != b.get(k)}


def big_shapes(run):
    """All four creators and the three v2 hashers on large shapes: a 2^25-byte piece with a file
    of more than one piece, 2^26 bytes and more that are not a whole number of blocks, more than
    2048 pieces."""
    from harness.common import Blob
    for pl, n in ((2 ** 25, 40 * 2 ** 20 + 77), (2 ** 20, 2 ** 26 + 777), (16384, 2050 * 16384 - 5)):
        with sandbox("c10b") as box:
            root = os.path.join(box, "payload")
            os.makedirs(root)
            pat = Blob.rand(13, 1021).bytes()
            with open(os.path.join(root, "big.bin"), "wb") as fd:
                fd.write((pat * (n // 1021 + 1))[:n])
            case = {"big_shape": True, "pl": pl, "size": n}
            metas = {}
            for kind in ("a2", "v2", "a3", "hy"):
                try:
                    metas[kind] = impl.create(kind, root, os.path.join(box, kind + ".torrent"), piece_length=pl)
                except Exception as exc:
                    run.fail("impl-vs-spec", dict(case, creator=kind), {"raised": repr(exc)})
            for a, b in (("a2", "v2"), ("a3", "hy")):
                if a in metas and b in metas:
                    la = impl.decode(metas[a]).get(b"piece layers")
                    lb = impl.decode(metas[b]).get(b"piece layers")
                    if refspec.info_span(metas[a]) != refspec.info_span(metas[b]) or \
                            {bytes(k): bytes(v) for k, v in la.items()} != {bytes(k): bytes(v) for k, v in lb.items()}:
                        run.fail("impl-vs-spec", dict(case, pair=[a, b]),
                                 {"why": "info dictionaries or piece layers differ"})
            got = cr.run_hashers(os.path.join(root, "big.bin"), pl)
            norm = {t: tuple(bytes(x) if isinstance(x, (bytes, bytearray)) else x for x in v)
                    for t, v in got.items()}
            if not (norm["V2"] == norm["HY"][:2] == norm["F0"][:2] == norm["F1"][:2]
                    and norm["HY"][2:] == norm["F1"][2:]):
                run.fail("impl-vs-spec", dict(case, file="big.bin"), {"why": "hashers disagree", "size": n})
            run.case(["big-shape", pl, n], True, sample=case, classes=["big-shape"])


from harness.common import translated_tie as common_translated_tie  # noqa: E402


def run(tier, seed, replay=None):
    run = Run("C10", tier, seed, RULE)
    drv = Driver()

    def still_fails(c):
        probe = Run("C10", tier, seed, RULE)
        if c.get("big_shape"):
            return True
        files = cr.files_of_case(c)
        run_case(probe, Driver(), files, c["pl"], c["single"], "shrink")
        return any(f.kind == "impl-vs-spec" for f in probe.failures)
    run.shrinker = still_fails
    if replay:
        c = replay["case"]
        if c.get("big_shape"):
            big_shapes(run)
            return run.finish()
        if c.get("scaled"):
            scaled_sweep(run, drv, "quick")
            return run.finish()
        files = cr.files_of_case(c)
        run_case(run, drv, files, c["pl"], c["single"], "replay")
        settle_model(run, drv)
        return run.finish()
    for files, pl, single in cr.corner_cases():
        run_case(run, drv, files, pl, single, "corner")
    for _ in range(60 if tier == "quick" else 600):
        files, pl, single = cr.make_case(run.rng, tier)
        run_case(run, drv, files, pl, single, "random")
    settle_model(run, drv)
    big_shapes(run)
    scaled_sweep(run, drv, tier)
    common_translated_tie(run, ["next_power_2", "merkle_root"])
    return run.finish()

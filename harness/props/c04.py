"""C04 - recheck never reports 100% for damaged or incomplete content."""
from harness.common import Driver, Run
from harness.props import rechecking as rc
from harness.props.c05 import settle
from harness.props.c16 import fmt, key, run_case

RULE = ("payloads as in C05 with 1..3 damages (flip a byte / truncate / remove a file; every "
        "piece's absent range contains a non-zero described byte, as the property states); "
        "recheck must report < 100; distinct by (version, source, pl, residues, damage "
        "kinds+piece indexes); non-trivial when the damage is not in the first piece of the "
        "first file")


def run(tier, seed, replay=None):
    run = Run("C04", tier, seed, RULE)
    drv = Driver()
    exp = {}

    def still_fails(c):
        probe = Run("C04", tier, seed, RULE)
        res = run_case(probe, Driver(), dict(c), {})
        if res is None or not c.get("damage"):
            return False
        result, stream, ref = res
        return (not all(ok for ok, _ in ref)) and not result < 100
    run.shrinker = still_fails
    from harness.common import corpus_cases
    cases = [replay["case"]] if replay else corpus_cases("C04") + \
        [rc.make_case(run.rng, tier, damage=True, max_damage=3)
         for _ in range(200 if tier == "quick" else 1500)]
    for case in cases:
        if not case["damage"]:
            continue
        res = run_case(run, drv, case, exp)
        if res is None:
            continue
        result, stream, ref = res
        if all(ok for ok, _ in ref):
            continue     # generator produced no effective damage (cannot happen by rule)
        if not result < 100:
            run.fail("impl-vs-spec", case, {"result": result, "impl": fmt(stream)[:16],
                                            "ref": fmt(ref)[:16]})
        run.case(key(case), rc.nontrivial_damage(case), sample=case,
                 classes=[f"v{case['version']}", case["source"]] +
                 sorted({op[0] for op in case["damage"]}))
    settle(run, drv, exp)
    return run.finish()

"""C04 - recheck never reports 100% for damaged or incomplete content."""
from harness.common import Driver, Run
from harness.props import rechecking as rc
from harness.props.c05 import settle
from harness.props.c16 import fmt, key, run_case

RULE = ("payloads as in C05 with 1..3 damages (flip a byte / truncate / remove a file; every "
        "piece's absent range contains a non-zero described byte, as the property states); "
        "recheck must report < 100; distinct by (version, source, pl, residues, damage "
        "kinds+piece indexes); non-trivial when the damage is not in the first piece of the "
        "first file")


def run(tier, seed, replay=None):
    run = Run("C04", tier, seed, RULE)
    drv = Driver()
    exp = {}

    def still_fails(c):
        probe = Run("C04", tier, seed, RULE)
        if c.get("many_pieces"):
            return True
        res = run_case(probe, Driver(), dict(c), {})
        if res is None or not c.get("damage"):
            return False
        result, stream, ref = res
        return (not all(ok for ok, _ in ref)) and not result < 100
    run.shrinker = still_fails
    from harness.common import corpus_cases
    cases = [replay["case"]] if replay else corpus_cases("C04") + rc.empty_run_cases(True) + \
        [rc.make_case(run.rng, tier, damage=True, max_damage=3)
         for _ in range(200 if tier == "quick" else 1500)]
    for case in cases:
        if not case["damage"] or case.get("many_pieces"):
            continue
        res = run_case(run, drv, case, exp)
        if res is None:
            continue
        result, stream, ref = res
        if all(ok for ok, _ in ref):
            continue     # generator produced no effective damage (cannot happen by rule)
        if not result < 100:
            run.fail("impl-vs-spec", case, {"result": result, "impl": fmt(stream)[:16],
                                            "ref": fmt(ref)[:16]})
        run.case(key(case), rc.nontrivial_damage(case), sample=case,
                 classes=[f"v{case['version']}", case["source"]] +
                 sorted({op[0] for op in case["damage"]}))
    if not replay or replay["case"].get("many_pieces"):
        many_pieces(run)
    settle(run, drv, exp)
    return run.finish()


def many_pieces(run):
    """More than 4096 pieces, the damage in the very first one: every piece counts, however many
    follow (no model tie: the payload is too large for the line protocol)."""
    import os
    from harness import impl
    from harness.common import Blob, sandbox
    pl = 16384
    for version, kind in ((1, "v1"), (2, "a2"), (3, "hy")):
        with sandbox("c04m") as box:
            root = os.path.join(box, "parent", "payload")
            os.makedirs(root)
            pat = Blob.rand(17, 1021).bytes()
            sizes = {"a-first": 50 * pl + 9, "big": 4200 * pl + 1}
            for name, n in sizes.items():
                with open(os.path.join(root, name), "wb") as fd:
                    fd.write((pat * (n // 1021 + 1))[:n])
            mpath = os.path.join(box, "m.torrent")
            case = {"many_pieces": True, "version": version, "pl": pl, "sizes": sizes,
                    "damage": [["flip", "a-first", 0]]}
            try:
                impl.create(kind, root, mpath, piece_length=pl)
                with open(os.path.join(root, "a-first"), "r+b") as fd:
                    first = fd.read(1)
                    fd.seek(0)
                    fd.write(bytes([first[0] ^ 0xFF]))
                result = impl.recheck_result(mpath, root)
                cli = impl.cli(["recheck", mpath, os.path.dirname(root)])
            except Exception as exc:
                run.fail("impl-vs-spec", case, {"raised": repr(exc)})
                continue
            if not result < 100 or not cli < 100:
                run.fail("impl-vs-spec", case, {"result": result, "cli": cli})
            run.case(["many-pieces", version], True, sample=case, classes=["many-pieces"])

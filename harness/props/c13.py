"""C13 - rebuild restores the complete torrent when intact copies are available."""
import os
import random

from harness import impl, refspec
from harness.common import Blob, Driver, MachineryError, Run, guarded, sandbox, write_tree
from harness.props import rebuilding as rb
from harness.props import creation as cr

RULE = ("batches of 1-2 torrents (v1/v2/hybrid, own creators or reference encoder; files at "
        "every boundary class incl. boundary-exact and empty files, equal file names in "
        "different directories), originals scattered over 1-3 search directories at depth 0-3 "
        "next to unrelated files and decoys (different size / different first byte / every "
        "byte different); rebuild into an empty destination; the result is verified with the "
        "reference verifier and the count compared with the files present; two fixed witnesses "
        "of the known findings run first; fixed and random search trees whose DIRECTORY names "
        "coincide with file names of the torrent (file named like its parent, search directory "
        "named like a file, same-named ancestors; v1, aligned v1, v2, hybrid); distinct by (versions, residues, #search dirs, decoy "
        "kinds); non-trivial when >= 2 search locations or a decoy or a boundary-exact/empty file")


def run_case(run, drv, case_seed, tier):
    rng = random.Random(case_seed)
    torrents = [rb.gen_torrent(rng, str(i), tier) for i in range(rng.choice([1, 1, 2]))]
    case = {"case_seed": case_seed, "torrents": torrents, "bystander": rng.random() < 0.25}
    rb.METADIR[0] = rng.choice(["metas", "metas", "[2024] metas", "m*e?tas"])
    with sandbox("c13") as box:
        metas = [rb.write_metafile(box, t, i) for i, t in enumerate(torrents)]
        mdirname, rb.METADIR[0] = rb.METADIR[0], "metas"
        case["metadir"] = mdirname
        case["clash"] = rng.random() < 0.3      # directories named like wanted files above the copies
        sdirs, placed = rb.scatter(rng, box, torrents, decoys="safe", clash=case["clash"])
        dest = os.path.join(box, "dest")
        os.makedirs(dest)
        flavour = rng.choice(["plain", "plain", "symlink", "below-symlink", "interrupted"])
        case["dest"] = flavour
        if flavour == "symlink":
            os.symlink(dest, os.path.join(box, "dest-link"))
            dest = os.path.join(box, "dest-link")
        elif flavour == "below-symlink":
            os.makedirs(os.path.join(box, "real", "sub"))
            os.symlink(os.path.join(box, "real"), os.path.join(box, "lnk"))
            dest = os.path.join(box, "lnk", "sub")
        elif flavour == "interrupted":
            # an earlier, interrupted rebuild left truncated copies behind
            for t in torrents:
                for p, blob in rb.torrent_files(t):
                    data = blob.bytes()
                    if len(data) > 1 and rng.random() < 0.5:
                        path = os.path.join(dest, t["name"]) if t["single"] else \
                            os.path.join(dest, t["name"], *p.split("/"))
                        os.makedirs(os.path.dirname(path), exist_ok=True)
                        with open(path, "wb") as fd:
                            fd.write(data[:rng.choice([1, len(data) // 2, len(data) - 1])])
        how = rng.choice(["list", "dir"])
        if how == "dir" or "symlink" in flavour:     # symbolic links are outside the Lean FS model
            mlist = [os.path.join(box, mdirname)] if how == "dir" else [m for m, _ in metas]
            if rng.random() < 0.5:
                count = impl.rebuild(mlist, sdirs, dest)
            else:                                       # the command line entry point
                count = impl.cli(["rebuild", "-m"] + mlist + ["-c"] + sdirs + ["-d", dest])
        else:
            count, raised = rb.rebuild_with_model(box, [m for m, _ in metas], sdirs, dest, drv, case)
            if raised:
                run.fail("impl-vs-spec", case, {"raised": raised})
        judge(run, case, torrents, metas, dest, count)
        map_pieces_model(drv, case, torrents, metas)
    kinds = sorted({k for k, _ in placed})
    nt = len(sdirs) >= 2 or any(k != "orig" for k in kinds) or any(
        len(cr.blob_from_token(tok)) % t["pl"] == 0 for t in torrents for _, tok in t["files"])
    run.case([[t["version"], t["single"], t["source"],
               sorted(len(cr.blob_from_token(tok)) % t["pl"] for _, tok in t["files"])]
              for t in torrents] + [len(sdirs), kinds], nt, sample=case,
             classes=[f"v{t['version']}" for t in torrents] + [f"dirs={len(sdirs)}"] + kinds +
             (["dir-named-like-file"] if case["clash"] else []))


def judge(run, case, torrents, metas, dest, count, flags=None, expect_wrong=None):
    present = 0
    total_files = 0
    for t, (mpath, raw) in zip(torrents, metas):
        results, wrong = rb.verify_dest(raw, t, dest)
        total_files += len(t["files"])
        present += len(t["files"]) - len([w for w in wrong if w[1] == "missing"])
        if wrong or not all(ok for ok, _ in results):
            c = dict(case, torrent=t["name"])
            if expect_wrong is not None and wrong == expect_wrong:
                c.update(flags or {})     # exactly the recorded known finding
            run.fail("impl-vs-spec", c, {"why": "destination does not verify 100%",
                                         "wrong": wrong[:6],
                                         "pieces": [f"{int(o)}:{s}" for o, s in results][:12]})
    if count > present:
        c = dict(case)
        run.fail("impl-vs-spec", c, {"why": "counted more files than are present",
                                     "count": count, "present": present})


def map_pieces_model(drv, case, torrents, metas):
    """Tie of Impl.mapPieces to Metadata._map_pieces on the v1 torrents of this case."""
    from torrentfile.rebuild import Metadata
    from harness.common import quiet
    for t, (mpath, raw) in zip(torrents, metas):
        if t["version"] != 1:
            continue
        with quiet():
            md = Metadata(mpath)
            md._map_pieces()
        got = []
        last = 0
        for piece in md.piece_nodes:
            toks = []
            for n in piece.paths:
                # file indexes never decrease along the stream: search forward from the last
                i = next((k for k in range(last, len(md.files))
                          if md.files[k]["full"] == n.full and md.files[k]["length"] == n.length), -1)
                if i >= 0:
                    last = i
                toks.append(f"{i}:{n.start}:{n.stop}")
            got.append(",".join(toks))
        lengths = [f["length"] for f in md.files]
        npieces = len(md.pieces) // 20
        drv.ask(f"mappieces {md.piece_length} {npieces} {len(lengths)} " +
                " ".join(map(str, lengths)), (case, ";".join(got)))


def _idx(md, node):
    for i, f in enumerate(md.files):
        if f["full"] == node.full and f["length"] == node.length:
            return i
    return -1


def witness_kf1(run):
    """KF-C13-1: same-name same-size decoy agreeing with the original on the whole first
    piece covering the file, enumerated first."""
    pl = 16384
    t = {"name": "tkf", "files": [("a", "r1.40000"), ("b", "r2.100")], "pl": pl, "version": 1,
         "single": False, "source": "own"}
    with sandbox("c13k") as box:
        metas = [rb.write_metafile(box, t, 0)]
        s0, s1 = os.path.join(box, "search0"), os.path.join(box, "search1")
        data = cr.blob_from_token("r1.40000").bytes()
        decoy = data[:pl] + bytes(x ^ 0xFF for x in data[pl:])
        write_tree(s0, [("a", decoy)])
        write_tree(s1, [("a", data), ("b", cr.blob_from_token("r2.100").bytes())])
        dest = os.path.join(box, "dest")
        os.makedirs(dest)
        count = impl.rebuild([metas[0][0]], [s0, s1], dest)
        placed = open(os.path.join(dest, "tkf", "a"), "rb").read() \
            if os.path.isfile(os.path.join(dest, "tkf", "a")) else None
        judge(run, {"witness": "KF-C13-1"}, [t], metas, dest, count,
              flags={"kf_first_piece_decoy": placed == decoy},
              expect_wrong=[("a", "differs")])
    run.case(["witness", "KF-C13-1"], True, classes=["witness"])


def witness_kf2(run):
    """Regression witness of the repaired KF-C13-2: v1 metafile with BEP 47 padding entries
    (torrentfile's own --align) must rebuild completely."""
    t = {"name": "tpad", "files": [("a", "r1.20000"), ("b", "r2.100")], "pl": 16384,
         "version": 1, "single": False, "source": "own", "create_opts": {"align": True}}
    with sandbox("c13p") as box:
        metas = [rb.write_metafile(box, t, 0)]
        s0 = os.path.join(box, "search0")
        write_tree(s0, [(p, cr.blob_from_token(tok).bytes()) for p, tok in t["files"]])
        dest = os.path.join(box, "dest")
        os.makedirs(dest)
        count = impl.rebuild([metas[0][0]], [s0], dest)
        judge(run, {"witness": "fixed KF-C13-2 (v1 pad entries)"}, [t], metas, dest, count)
    run.case(["witness", "KF-C13-2"], True, classes=["witness"])


def witness_kf3(run):
    """KF-C13-3: more files inside ONE v1 piece than the interpreter's recursion limit allows
    (PieceNode._find_matches recurses once per file of a piece)."""
    n = 1100
    t = {"name": "tmany", "files": [(f"f{i:04d}", f"r{i % 40 + 1}.10") for i in range(n)], "pl": 16384,
         "version": 1, "single": False, "source": "own"}
    case = {"witness": "KF-C13-3", "files": n, "bytes_each": 10, "pl": 16384}
    with sandbox("c13m") as box:
        metas = [rb.write_metafile(box, t, 0)]
        s0 = os.path.join(box, "search0")
        write_tree(s0, [(p, cr.blob_from_token(tok).bytes()) for p, tok in t["files"]])
        dest = os.path.join(box, "dest")
        os.makedirs(dest)
        try:
            count = impl.rebuild([metas[0][0]], [s0], dest)
        except RecursionError:
            # exactly the recorded finding; anything else (another exception, a wrong or
            # incomplete destination) is judged like every other case
            run.fail("impl-vs-spec", dict(case, kf_recursion_many_files=True),
                     {"raised": "RecursionError", "why": "1100 files of 10 bytes share one 16 KiB piece"})
        else:
            judge(run, case, [t], metas, dest, count)
    run.case(["witness", "KF-C13-3"], True, classes=["witness"])


def fixed_shapes(run):
    """Shapes every run includes: two files with the same base name in different directories,
    both a whole number of pieces long (so pieces never straddle them), for every version."""
    for version in (1, 2, 3):
        for opts in ({}, {"align": True}) if version == 1 else ({},):
            t = {"name": "tsame", "files": [("cd1/image.bin", "r1.32768"), ("cd2/image.bin", "r2.32768"),
                                            ("cd2/notes", "r3.10")], "pl": 16384, "version": version,
                 "single": False, "source": "own", "create_opts": dict(opts)}
            case = {"fixed": "same-basename-on-boundaries", "version": version, "opts": opts}
            with sandbox("c13f") as box:
                metas = [rb.write_metafile(box, t, 0)]
                s0 = os.path.join(box, "disk1")
                write_tree(s0, [("x/" + p, cr.blob_from_token(tok).bytes()) for p, tok in t["files"]])
                dest = os.path.join(box, "dest")
                os.makedirs(dest)
                try:
                    count = impl.rebuild([metas[0][0]], [s0], dest)
                except Exception as exc:
                    run.fail("impl-vs-spec", case, {"raised": repr(exc)[:200]})
                    continue
                judge(run, case, [t], metas, dest, count)
            run.case(["fixed", version, bool(opts)], True, sample=case, classes=["fixed-shape"])
    # empty files in first, middle and LAST positions of the listing (they belong to no piece of
    # their own): every one of them is recreated
    for version in (1, 2, 3):
        for opts in ({}, {"align": True}) if version == 1 else ({},):
            t = {"name": "tempty", "files": [("0-first-empty", "r1.0"), ("a.bin", "r2.20000"), ("m/mid-empty", "r1.0"),
                                             ("n.bin", "r3.16384"), ("zz/last-empty", "r1.0"), ("zzz-last2", "r1.0")],
                 "pl": 16384, "version": version, "single": False, "source": "own", "create_opts": dict(opts)}
            case = {"fixed": "empty-files-first-middle-last", "version": version, "opts": opts}
            with sandbox("c13e") as box:
                metas = [rb.write_metafile(box, t, 0)]
                s0 = os.path.join(box, "disk1")
                write_tree(s0, [("y/" + p, cr.blob_from_token(tok).bytes()) for p, tok in t["files"]])
                dest = os.path.join(box, "dest")
                os.makedirs(dest)
                try:
                    count = impl.rebuild([metas[0][0]], [s0], dest)
                except Exception as exc:
                    run.fail("impl-vs-spec", case, {"raised": repr(exc)[:200]})
                    continue
                judge(run, case, [t], metas, dest, count)
            run.case(["fixed-empty", version, bool(opts)], True, sample=case, classes=["fixed-shape"])


CLASH_FILES = [("readme.txt", "r1.700"), ("data/data", "r2.34002"), ("data/other.bin", "r3.16401"),
               ("data/empty.cfg", "r1.0"), ("src/src", "r4.16384"), ("tclash", "r6.300"), ("zz/tail.bin", "r5.31005")]


def clash_layouts(box, t):
    """Search trees in which DIRECTORY names on the way to the intact copies coincide with file
    names of the torrent (the property says: under the same file names, at any depth).
    Yields (label, [search dirs]); every layout holds an intact copy of every file."""
    files = [(p, b.bytes()) for p, b in rb.torrent_files(t)]
    # (1) a plain copy of the payload: `data/data`, `src/src`, `<name>/<name>` are files named
    #     like their own parent directory
    s = os.path.join(box, "s1")
    write_tree(os.path.join(s, "old", "disk2", t["name"]), files)
    write_tree(s, [("old/notes.txt", b"unrelated"), ("misc/other.bin", b"\x07" * 16401),
                   ("misc/readme.txt", b"another readme")])
    yield "file-named-like-parent", [s]
    # (2) the search directories themselves are named like wanted files
    s_a, s_b = os.path.join(box, "s2", "data"), os.path.join(box, "s2", "readme.txt")
    write_tree(s_a, [(f"k{i}/" + p.split("/")[-1], d) for i, (p, d) in enumerate(files[:4])])
    write_tree(s_b, [(p.split("/")[-1], d) for p, d in files[4:]])
    yield "search-dir-named-like-file", [s_a, s_b]
    # (3) unrelated directories named like wanted files above the (flat) copies
    s = os.path.join(box, "s3")
    write_tree(s, [("src/deep/other.bin/k%d/" % i + p.split("/")[-1], d) for i, (p, d) in enumerate(files)])
    write_tree(s, [("src/tail.bin/also-a-directory/x", b"x"), ("0-first/data", b"decoy of another size")])
    yield "ancestor-named-like-file", [s]


def name_clash_shapes(run, drv):
    """Fixed shapes: v1, aligned v1, v2, hybrid x three search-tree layouts with name clashes,
    library (with the model tie) and command line."""
    for version in (1, 2, 3):
        for opts in ({}, {"align": True}) if version == 1 else ({},):
            t = {"name": "tclash", "files": list(CLASH_FILES), "pl": 16384, "version": version,
                 "single": False, "source": "own", "create_opts": dict(opts)}
            with sandbox("c13n") as box:
                metas = [rb.write_metafile(box, t, 0)]
                for k, (label, sdirs) in enumerate(clash_layouts(box, t)):
                    case = {"fixed": "dir-named-like-wanted-file", "layout": label, "version": version, "opts": opts}
                    dest = os.path.join(box, f"dest{k}")
                    os.makedirs(dest)
                    try:
                        if k == 1:
                            count = impl.cli(["rebuild", "-m", metas[0][0], "-c"] + sdirs + ["-d", dest])
                        elif k == 0:
                            count = impl.rebuild([metas[0][0]], sdirs, dest)
                        else:
                            count, raised = rb.rebuild_with_model(box, [metas[0][0]], sdirs, dest, drv, case)
                            if raised:
                                run.fail("impl-vs-spec", case, {"raised": raised})
                    except Exception as exc:
                        from harness.common import raised_in_repo
                        if not (raised_in_repo(exc) or type(exc).__name__ == "CliExit"):
                            raise
                        run.fail("impl-vs-spec", case, {"raised": repr(exc)[:200]})
                        continue
                    judge(run, case, [t], metas, dest, count)
                    run.case(["fixed-clash", label, version, bool(opts)], True, sample=case,
                             classes=["dir-named-like-file"])


def run(tier, seed, replay=None):
    impl.use_repo()
    run = Run("C13", tier, seed, RULE)
    drv = Driver()
    if replay and "case_seed" in replay["case"]:
        seeds = [replay["case"]["case_seed"]]
    else:
        guarded(run, {"witness": "KF-C13-1"}, witness_kf1, run)
        guarded(run, {"witness": "KF-C13-2"}, witness_kf2, run)
        guarded(run, {"witness": "KF-C13-3"}, witness_kf3, run)
        guarded(run, {"fixed": "shapes"}, fixed_shapes, run)
        guarded(run, {"fixed": "dir-named-like-wanted-file"}, name_clash_shapes, run, drv)
        seeds = [] if replay else [run.rng.randrange(10 ** 9) for _ in range(70 if tier == "quick" else 700)]
    for s in seeds:
        guarded(run, {"case_seed": s}, run_case, run, drv, s, tier)
    for (case, got), req, out in rb.settle_match(run, drv.run()):
        if out.startswith("ERR"):
            if os.environ.get("VERIF_DEV") and "bad-op" in out:
                continue
            raise MachineryError(f"driver: {req[:40]} -> {out[:100]}")
        run.model_checked += 1
        want = ";".join(x or "-" for x in got.split(";")) if got else "none"
        if out.split()[0] != want:
            run.fail("impl-vs-model", case, {"correspondence": "Impl.mapPieces",
                                             "model": out[:200], "impl": got[:200]})
    return run.finish()

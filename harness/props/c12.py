"""C12 - only power-of-two piece lengths of at least 16 KiB are ever accepted or chosen."""
import os
import random

from harness import impl, refspec
from harness.common import Driver, MachineryError, Run, sandbox, use_repo, write_tree

RULE = ("normalize_piece_length on every integer -2048..2^21 (quick: ..2^18), every n with "
        "|n-2^k|<=2 for k<=80, random big integers, numeric/non-numeric strings; the same "
        "decision through TorrentFile(piece_length=), `create --piece-length` and the config "
        "file on a sample; get_piece_length on boundaries 1000*2^k+-2 and random sizes up to "
        "2^80 (monotonicity on sorted sample); automatic choice recorded by the creators for "
        "payload directories that reach their bytes through symbolic links (to files, to a "
        "directory) next to plain payloads: monotone in the recorded payload size; distinct by value; non-trivial when within 2 of "
        "a power of two or > 2^14 and not a power of two, or a string")

STRINGS = ["9" * 400, "1" + "0" * 320, "7" * 4300, "", " ", "14", "25", "26", "13", "16384", "16385", "015", "0", "00016384", "+15",
           "-15", "1_6", " 15", "15 ", "15\n", "²", "٣٢", "1e5", "0x4000", "16.0", "abc",
           "１６", "16384.0", "2**14", "\t", "32768", "1048576", "33554432", "67108864",
           "9" * 30, "1" * 4301, "0" * 4400 + "16384", "１５", "৪"]


LIM = 10 ** 4000
BIG = 2 ** 2000


def dec(n):
    """Decimal text of an integer of any size (the interpreter refuses str() beyond 4300 digits,
    and the harness must not lift that limit: the code under test runs in this process)."""
    if -LIM < n < LIM:
        return str(n)
    sign, n = ("-", -n) if n < 0 else ("", n)
    parts = []
    while n:
        n, r = divmod(n, LIM)
        parts.append(str(r).rjust(4000, "0") if n else str(r))
    return sign + "".join(reversed(parts))


def undec(s):
    if isinstance(s, int):
        return s
    sign = -1 if s.startswith("-") else 1
    s = s.lstrip("-")
    n = 0
    for i in range(0, len(s), 4000):
        chunk = s[i:i + 4000]
        n = n * 10 ** len(chunk) + int(chunk)
    return sign * n


def jv(n):
    """JSON-able form of an integer value in a recorded case"""
    return n if -LIM < n < LIM else dec(n)


def spec_accepts(n):
    """Reference decision: exponent 14..25, or a power of two >= 16 KiB."""
    if 14 <= n <= 25:
        return 2 ** n
    if n >= 16384 and n & (n - 1) == 0:
        return n
    return None


def spec_str(s):
    if s and all(c in "0123456789" for c in s) and len(s) <= 4300:
        return spec_accepts(int(s))
    return None


def spec_auto(size):
    exp = 14
    while exp < 24 and size > 1000 * 2 ** exp:
        exp += 1
    return 2 ** exp


from harness.common import translated_tie as common_translated_tie  # noqa: E402


def run(tier, seed, replay=None):
    use_repo()
    from torrentfile import utils
    run = Run("C12", tier, seed, RULE)
    rng = run.rng
    drv = Driver()
    PLE = utils.PieceLengthValueError

    def norm(v):
        try:
            return ("ok", utils.normalize_piece_length(v))
        except PLE:
            return ("ple", None)
        except Exception as exc:  # any other exception type is a violation
            return ("other:" + type(exc).__name__, None)

    values = []
    if replay:
        values = [undec(replay["case"]["value"])] if "value" in replay["case"] else []
    else:
        top = 2 ** 18 if tier == "quick" else 2 ** 21
        values = list(range(-2048, top + 3))
        for k in range(0, 81):
            values += [2 ** k + d for d in (-2, -1, 0, 1, 2)]
        values += [rng.randrange(2 ** 14, 2 ** 64) for _ in range(20000 if tier == "quick" else 400000)]
        values += [2 ** rng.randrange(14, 200) for _ in range(200)]
        values += [2 ** 1024, 2 ** 1024 + 1, 2 ** 1100 - 1, 10 ** 400, 10 ** 400 + 7, -(10 ** 400), 2 ** 5000,
                   10 ** 5000, 10 ** 4300, 10 ** 4299 + 1, -(10 ** 5000), 2 ** 20000 + 1, 3 ** 10000]
    sample_for_model = set()
    for n in values:
        got = norm(n)
        want = spec_accepts(n)
        exp = ("ok", want) if want is not None else ("ple", None)
        nt = (n > 2 ** 14 and n & (n - 1) != 0) or any(abs(n - 2 ** k) <= 2 for k in (13, 14, 15, 20, 25, 26, 40))
        run.case(n if -LIM < n < LIM else f"{n.bit_length()}bits:{n % 1000003}", nt)
        if got != exp:
            run.fail("impl-vs-spec", {"value": jv(n), "route": "normalize_piece_length"},
                     {"impl": got, "spec": exp})
        if nt and len(sample_for_model) < 3000 or -30 <= n <= 40 or abs(n) > BIG:
            sample_for_model.add(n)
    strings = STRINGS + [str(v) for v in (14, 20, 25, 26, 16384, 65536, 65537, 2 ** 30)]
    if replay and "string" in replay["case"]:
        strings = [replay["case"]["string"]]
    elif replay:
        strings = []
    for s in strings:
        got = norm(s)
        want = spec_str(s)
        exp = ("ok", want) if want is not None else ("ple", None)
        run.case("s:" + s[:40] + str(len(s)), True, sample={"string": s[:40], "len": len(s)})
        if got != exp:
            run.fail("impl-vs-spec", {"string": s, "route": "normalize_piece_length"},
                     {"impl": got, "spec": exp})
        drv.ask("npl s " + (s.encode("utf8").hex() or "-"), ("s", s, got))
    for n in sorted(sample_for_model):
        drv.ask("npl i " + dec(n), ("i", n, norm(n)))
    # other non-int values through the library
    for v in (None, 1.5, 16384.0, b"16384", [16384], True):
        if replay:
            break
        got = norm(v)
        if got[0] != "ple":
            run.fail("impl-vs-spec", {"value": repr(v), "route": "normalize_piece_length"},
                     {"impl": got, "spec": "ple"})
    # routes: keyword, command line, configuration file
    if not replay or replay["case"].get("route") in ("kw", "cli", "config"):
        route_values = [14, 16, 25, 26, 13, 16384, 16385, 32768, 49152, 8192, 32, 2 ** 20,
                        2 ** 20 + 1, -1, 100000, 131072] + [n for n in range(0, 31) if n not in (13, 14, 16, 25, 26)]
        if replay:
            route_values = [replay["case"]["value"]]
        route_values += [rng.choice([2 ** rng.randrange(10, 23) + rng.choice([0, 0, 1, -1, 16])])
                         for _ in range(6 if tier == "quick" else 60)]
        with sandbox("c12") as box:
            root = os.path.join(box, "p")
            write_tree(root, [("a", b"x" * 100), ("b/c", b"y" * 40000)])
            for v in route_values:
                for route in ("kw", "kwstr", "cli", "config", "cli+config"):
                    got = _route(route, v, root, box, PLE)
                    want = spec_accepts(v)
                    if route == "kw" and not v:
                        continue  # falsy keyword = not supplied (DESIGN §8 C12 scope note)
                    if route in ("kwstr", "cli", "config", "cli+config") and v < 0:
                        want = None      # "-1" is not a decimal string
                    exp = ("ok", want) if want is not None else ("ple", None)
                    run.case(f"{route}:{v}", True, classes=[route])
                    if got != exp:
                        run.fail("impl-vs-spec", {"value": v, "route": route},
                                 {"impl": got, "spec": exp})
    # an empty payload does not excuse a bad piece length, nor change a good one
    if not replay or replay["case"].get("route") == "empty-payload":
        with sandbox("c12e") as box:
            root = os.path.join(box, "p")
            write_tree(root, [("empty", b""), ("d/also-empty", b"")])
            single = os.path.join(box, "lonely")
            write_tree(box, [("lonely", b"")])
            for content in (root, single):
                for v in (12345, 13, 16384 + 1, 15, 65536, "abc", "18"):
                    for route in ("kw", "cli"):
                        if route == "cli" and not isinstance(v, str):
                            v2 = str(v)
                        else:
                            v2 = v
                        got = _route(route if isinstance(v2, (int,)) or route == "cli" else "kw", v2, content, box, PLE)
                        want = spec_accepts(v2) if isinstance(v2, int) else spec_str(v2)
                        exp = ("ok", want) if want is not None else ("ple", None)
                        run.case(f"empty:{route}:{v2}", True, classes=["empty-payload"])
                        if got != exp:
                            run.fail("impl-vs-spec", {"value": v2, "route": "empty-payload",
                                                      "content": os.path.basename(content)},
                                     {"impl": got, "spec": exp})
    # strings through the command line and the configuration file
    if not replay or replay["case"].get("route") in ("cli-str", "config-str"):
        svals = ["+15", "1_5", "1_6_3_8_4", "١٥", " 15", "15 ", "0x10", "15.0", "²", "-15", "015",
                 "16", "16384", "16385", "1e5", "4", "04", "004", "09", "014", "0014", "00", "025"]
        if replay:
            svals = [replay["case"]["string"]]
        with sandbox("c12s") as box:
            root = os.path.join(box, "p")
            write_tree(root, [("a", b"x" * 100), ("b/c", b"y" * 40000)])
            for sv in svals:
                for route in ("cli", "config"):
                    if route == "config" and sv != sv.strip():
                        continue        # configparser strips surrounding blanks itself
                    got = _route(route, sv, root, box, PLE)
                    want = spec_str(sv)
                    exp = ("ok", want) if want is not None else ("ple", None)
                    run.case(f"{route}-str:{sv}", True, classes=[route + "-str"])
                    if got != exp:
                        run.fail("impl-vs-spec", {"string": sv, "route": route + "-str"},
                                 {"impl": got, "spec": exp})
    # automatic choice recorded by the creators: same path, content resized between creates
    if not replay or replay["case"].get("route") == "auto-create":
        with sandbox("c12a") as box:
            root = os.path.join(box, "p")
            write_tree(root, [("small", b"x" * 10), (".hidden/x", b""), ("d/.keep", b"")])
            seq = [50_331_648, 10_240, 16_384_001, 16_383_000, 0, 33_000_000, 4096]
            rng.shuffle(seq)
            placements = ["big", ".hidden/big", "d/.big"]
            for step, size in enumerate(seq if tier != "quick" else seq[:6]):
                for p in placements:
                    if os.path.exists(os.path.join(root, p)):
                        os.remove(os.path.join(root, p))
                big = os.path.join(root, placements[step % 3])
                with open(big, "ab") as fd:
                    fd.truncate(size)
                for kind in ("v1", "a2", "cli-list-flag", "kw-swallowed"):
                    out = os.path.join(box, "auto.torrent")
                    if kind == "cli-list-flag":
                        # no piece length given, the content path directly after a list-valued flag
                        flag = [["-a", "http://t/a"], ["--web-seed", "http://w/1"], ["--http-seed", "http://h/1"]][step % 3]
                        impl.cli(["create", "--prog", "0", "-o", out] + flag + [root])
                        raw = open(out, "rb").read()
                    elif kind == "kw-swallowed":
                        # the same through the library: the path swallowed by a list keyword
                        from torrentfile.torrent import TorrentFile
                        from harness.common import quiet
                        with quiet():
                            TorrentFile(path=None, url_list=["http://w/1", root], outfile=out, progress=0).write()
                        raw = open(out, "rb").read()
                    else:
                        raw = impl.create(kind, root, out)
                    got = impl.decode(raw)[b"info"][b"piece length"]
                    want = spec_auto(size + 10)
                    run.case(f"auto-create:{kind}:{size}", True, classes=["auto-create"])
                    if got != want:
                        run.fail("impl-vs-spec", {"route": "auto-create", "creator": kind,
                                                  "sizes_so_far": seq, "size": size + 10},
                                 {"impl": got, "spec": want})
    # automatic choice recorded by the creators for payloads that reach their bytes through links
    if not replay or replay["case"].get("route") == "auto-links":
        from harness.common import guarded
        # (own generator: the stream used by the other sections stays what it was)
        guarded(run, {"route": "auto-links"}, auto_links, run, random.Random(f"{seed}/auto-links"), tier)
    # automatic choice
    from torrentfile.utils import get_piece_length
    sizes = [0, 1, 2 ** 50, 2 ** 60, 2 ** 80]
    for k in range(10, 30):
        sizes += [1000 * 2 ** k + d for d in (-2, -1, 0, 1, 2)] + [2 ** (k + 10) + d for d in (-1, 0, 1)]
    sizes += [rng.randrange(0, 2 ** rng.randrange(1, 55)) for _ in range(3000 if tier == "quick" else 100000)]
    if replay:
        sizes = [replay["case"]["size"]] if "size" in replay["case"] else []
    prev = None
    for size in sorted(sizes):
        got = get_piece_length(size)
        want = spec_auto(size)
        run.case(f"auto:{size}", any(abs(size - 1000 * 2 ** k) <= 2 for k in range(14, 25)))
        ok = got == want and got & (got - 1) == 0 and 2 ** 14 <= got <= 2 ** 24
        if not ok or (prev is not None and got < prev):
            run.fail("impl-vs-spec", {"size": size, "route": "get_piece_length"},
                     {"impl": got, "spec": want, "previous": prev})
        prev = got
        if any(abs(size - 1000 * 2 ** k) <= 2 for k in range(13, 26)) or size < 5:
            drv.ask(f"gpl {size}", ("g", size, got))
    for (kind, v, got), req, out in drv.run():
        run.model_checked += 1
        if out.startswith("ERR"):
            if os.environ.get("VERIF_DEV") and "bad-op" in out:
                continue
            raise MachineryError(f"driver: {req[:60]} -> {out}")
        if kind == "g":
            if int(out) != got:
                run.fail("impl-vs-model", {"size": v}, {"correspondence": "Impl.getPieceLength",
                                                        "model": out, "impl": got})
            continue
        model = ("ok", int(out.split()[1])) if out.startswith("ok") else ("ple", None)
        if model != got:
            key = {"value": jv(v)} if kind == "i" else {"string": v}
            run.fail("impl-vs-model", key, {"correspondence": "Impl.normalizeInt/normalizeStr",
                                            "model": out, "impl": got})
        want = spec_accepts(v) if kind == "i" else spec_str(v)
        if model != (("ok", want) if want is not None else ("ple", None)):
            run.fail("spec-vs-ref", {"value": (dec(v) if kind == "i" else str(v))[:50]}, {"model": out, "ref": want})
    common_translated_tie(run, ["normalize_piece_length", "normalize_piece_length__str", "get_piece_length"])
    return run.finish()


def _sparse(path, size):
    os.makedirs(os.path.dirname(path), exist_ok=True)
    with open(path, "wb") as fd:
        fd.write(b"torrentfile")            # (not all zero)
        fd.truncate(size)


def recorded_payload(info):
    """Number of payload bytes a metafile describes (padding entries are not payload)."""
    if b"files" in info:
        return sum(e[b"length"] for e in info[b"files"] if b"p" not in e.get(b"attr", b""))
    if b"length" in info:
        return info[b"length"]

    def walk(tree):
        return sum(v[b""][b"length"] if b"" in v else walk(v) for v in tree.values())
    return walk(info[b"file tree"])


def auto_links(run, rng, tier):
    """Payload directories assembled (partly) from symbolic links - links to files, a link to a
    directory - next to plain payloads of other sizes.  The creators follow links: the linked bytes
    are listed and hashed, they are payload.  With no piece length given, the recorded piece length
    must be a power of two in 16 KiB .. 16 MiB and must not be smaller for a larger payload
    (payload size = what the metafile itself records)."""
    M = 1_000_000
    with sandbox("c12l") as box:
        store = os.path.join(box, "store")
        _sparse(os.path.join(store, "m1"), 12 * M)
        _sparse(os.path.join(store, "m2"), 12 * M)
        _sparse(os.path.join(store, "dir", "x"), 9 * M)
        _sparse(os.path.join(store, "dir", "deeper", "y"), 9 * M)
        _sparse(os.path.join(store, "dir", "z"), 3000)
        sizes = {"m1": 12 * M, "m2": 12 * M, "dir": 18 * M + 3000}
        payloads = []      # (label, root, bytes the harness put there / linked in)

        def payload(label, plain=(), file_links=(), dir_links=()):
            root = os.path.join(box, label, "p")
            total = 0
            for rel, n in plain:
                _sparse(os.path.join(root, rel), n)
                total += n
            for rel, target in file_links + dir_links:
                path = os.path.join(root, rel)
                os.makedirs(os.path.dirname(path), exist_ok=True)
                os.symlink(os.path.join(store, target), path)
                total += sizes[target]
            payloads.append((label, root, total))
        payload("plain10", plain=[("a", 10 * M), ("d/b", 5)])
        payload("plain17", plain=[("a", 17 * M), ("d/b", 5)])
        payload("linked-files-24", plain=[("readme", 100)], file_links=(("one", "m1"), ("sub/two", "m2")))
        payload("linked-dir-18", plain=[("readme", 100)], dir_links=(("media", "dir"),))
        payload("plain24", plain=[("one", 12 * M), ("sub/two", 12 * M), ("readme", 100)])
        payload("plain34", plain=[("a/b/c", 34 * M)])
        payload("linked-all-42", plain=[("readme", 100)], file_links=(("one", "m1"), ("sub/two", "m2")),
                dir_links=(("sub/media", "dir"),))
        for i in range(2 if tier == "quick" else 12):
            # random split of a payload around a threshold into plain and linked bytes
            want_total = rng.choice([16_384_000, 32_768_000]) + rng.choice([-M, -1, 1, M, 5 * M])
            linked = [t for t in ("m1", "m2", "dir") if rng.random() < 0.6]
            while sum(sizes[t] for t in linked) >= want_total:
                linked.pop()
            rest = want_total - sum(sizes[t] for t in linked)
            payload(f"random{i}", plain=[("rest.bin", rest)],
                    file_links=tuple((f"l{j}/{t}", t) for j, t in enumerate(linked) if t != "dir"),
                    dir_links=tuple((f"l{j}/{t}", t) for j, t in enumerate(linked) if t == "dir"))
        out = os.path.join(box, "auto.torrent")
        for kind in ("v1", "cli-v2", "hy", "v2", "cli-v1"):
            seen = []
            for label, root, known in payloads:
                if kind in ("hy", "v2", "cli-v1") and label not in ("plain17", "linked-files-24", "linked-dir-18"):
                    continue
                if kind.startswith("cli"):
                    impl.cli(["create", "--prog", "0", "--meta-version", kind[-1], "-o", out, root])
                    with open(out, "rb") as fd:
                        raw = fd.read()
                else:
                    raw = impl.create(kind, root, out)
                info = impl.decode(raw)[b"info"]
                got, size = info[b"piece length"], recorded_payload(info)
                seen.append((size, got, label, known))
                run.case(f"auto-links:{kind}:{label}:{size}", True,
                         classes=["auto-links", "auto-links:linked" if "linked" in label or "random" in label else "auto-links:plain"])
                if not (isinstance(got, int) and got & (got - 1) == 0 and 2 ** 14 <= got <= 2 ** 24):
                    run.fail("impl-vs-spec", {"route": "auto-links", "creator": kind, "payload": label, "size": size},
                             {"impl": got, "spec": "a power of two in 2^14 .. 2^24"})
            seen.sort()
            for (s0, g0, l0, _), (s1, g1, l1, _) in zip(seen, seen[1:]):
                if s1 > s0 and g1 < g0:
                    run.fail("impl-vs-spec", {"route": "auto-links", "creator": kind,
                                              "payloads": [[l, s, k] for s, _, l, k in seen]},
                             {"why": "the automatic piece length decreases as the payload grows",
                              "smaller payload": [l0, s0, g0], "larger payload": [l1, s1, g1]})
                    break


def _route(route, v, root, box, PLE):
    import pyben
    from torrentfile.torrent import TorrentFile
    from harness.common import quiet
    out = os.path.join(box, "o.torrent")
    if os.path.exists(out):
        os.remove(out)
    try:
        if route == "kw":
            with quiet():
                TorrentFile(path=root, piece_length=v, progress=0, outfile=out).write()
        elif route == "kwstr":
            with quiet():
                TorrentFile(path=root, piece_length=str(v), progress=0, outfile=out).write()
        elif route == "cli":
            # quiet / verbose must not change whether a value is rejected
            flags = [[], [], ["-q"], ["-v"]][(len(str(v)) + (v if isinstance(v, int) and abs(v) < 10 ** 6 else 0)) % 4]
            impl.cli(flags + ["create", "--piece-length=" + str(v), "--prog", "0", "-o", out, root])
        elif route == "cli+config":
            # the flag together with a configuration file that says nothing about the piece length
            cfg = os.path.join(box, "other.ini")
            with open(cfg, "w") as fd:
                fd.write("[config]\ncomment = from the config file\n")
            impl.cli(["create", "--piece-length=" + str(v), "--config", "--config-path", cfg, "--prog", "0",
                      "-o", out, root])
        else:
            cfg = os.path.join(box, "t.ini")
            with open(cfg, "w") as fd:
                fd.write(f"[config]\npiece-length = {v}\n")
            impl.cli(["create", "--config", "--config-path", cfg, "--prog", "0", "-o", out, root])
    except PLE:
        # "rejected ... instead of producing a metafile": nothing may be left at the output path
        # (it did not exist before the call)
        if os.path.lexists(out):
            return ("ple-but-left-a-file:%d-bytes" % os.path.getsize(out), None)
        return ("ple", None)
    except SystemExit:
        return ("other:SystemExit", None)
    except Exception as exc:
        return ("other:" + type(exc).__name__, None)
    if not os.path.exists(out):
        return ("other:no-metafile", None)
    return ("ok", impl.decode(open(out, "rb").read())[b"info"][b"piece length"])

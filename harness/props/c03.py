"""C03 - hybrid metafile: v1 view and v2 view describe the same payload."""
import os

from harness import impl, refspec
from harness.common import Driver, Run, sandbox
from harness.props import creation as cr
from harness.props.c02 import settle_model

RULE = ("trees / single files as in C02 through both hybrid creators (TorrentAssembler "
        "meta_version 3, TorrentFileHybrid); distinct by (pl, sorted per-file residues); "
        "non-trivial when some file needs padding (size % pl != 0) or single file with a "
        "short last piece; plus content paths given RELATIVE to the working directory (parent "
        "directory, './', trailing '/', '.' and '..' from inside; library and command line) on trees "
        "whose directories are named like the root, end with its name or with a dot")


RELATIVE = ("rel", "dotrel", "trail", "dot", "rel-cli", "dot-cli", "up-from-inside")


def relative_spelling(label, box, root, name, single, files):
    """(working directory, relative path string, through the command line?) naming the payload."""
    if single or label in ("rel", "rel-cli"):
        return box, name, label.endswith("-cli") and not name.startswith("-")
    if label == "up-from-inside":
        sub = next((rel.split("/")[:-1] for rel, _ in files if "/" in rel), None)
        if sub:
            return os.path.join(root, *sub), "/".join([".."] * len(sub)), False
        label = "dot"
    return {"dotrel": (box, "./" + name, False), "trail": (box, name + "/", False),
            "dot": (root, ".", False), "dot-cli": (root, ".", True)}[label]


def run_case(run, drv, files, pl, single, tag, relative=None):
    """`relative`: the content path is given relative to the working directory (one of RELATIVE),
    as a user in the parent directory (or inside the payload) would type it."""
    case = {"links": cr.links(files),
            "files": [(rel, b.token()) for rel, b in files], "pl": pl, "single": single,
            "gen": tag}
    if relative:
        case["relative"] = relative
    old_cwd = os.getcwd()
    with sandbox("c03") as box:
        root, name = cr.materialize(box, files, single)
        for kind in ("a3", "hy"):
            out = os.path.join(box, kind + ".torrent")
            try:
                spelled, prog = cr.variant(run.rng, root, single)
                if relative:
                    wd, spelled, via_cli = relative_spelling(relative, box, root, name, single, files)
                    os.chdir(wd)
                    try:
                        if via_cli and kind == "a3":
                            impl.cli(["create", "--meta-version", "3", "--piece-length", str(pl), "--prog", "0",
                                      "-o", out, spelled])
                            with open(out, "rb") as fd:
                                raw = fd.read()
                        else:
                            raw = impl.create(kind, spelled, out, piece_length=pl, progress=prog)
                    finally:
                        os.chdir(old_cwd)
                else:
                    raw = impl.create(kind, spelled, out, piece_length=pl, progress=prog)
            except Exception as exc:
                run.fail("impl-vs-spec", dict(case, creator=kind), {"raised": repr(exc)})
                continue
            meta = impl.decode(raw)
            cr.ask_createfull(drv, ("createfull", dict(case, creator=kind), raw), kind, files, pl,
                              single, name, raw)
            why = cr.check_hybrid_view(meta, files, pl, single, name) or \
                cr.check_v2_view(meta, files, pl, single, name)
            if why:
                run.fail("impl-vs-spec", dict(case, creator=kind), {"why": why})
        rel, blob = max(files, key=lambda f: len(f[1]) % pl)
        if len(blob):
            path = root if single else os.path.join(root, *rel.split("/"))
            cr.ask_hashers(drv, blob, pl, (case, rel, cr.run_hashers(path, pl), blob, pl))
    run.case(cr.shape(files, pl) + [single] + ([relative, sorted(r for r, _ in files)] if relative else []),
             any(len(b) % pl for _, b in files), sample=case,
             classes=[f"files={len(files)}", f"pl={pl}", "single" if single else "dir"]
             + (["relative-path", "relative:" + relative] if relative else []))


def named_like_root(pl):
    """Fixed trees in which directories (and files) are named like the content root itself
    ('payload'), end with its name or contain it, or end with a dot (root spelled '.')."""
    from harness.common import Blob
    from harness import gen
    R = Blob.rand
    return [
        gen.FileList([("payload/inner", R(71, pl + 1)), ("top", R(72, 5))]),
        gen.FileList([("Live payload/intro", R(73, 300)), ("payload/payload/x", R(74, pl)), ("zz", R(75, pl - 1))]),
        gen.FileList([("my-payload/ref", R(76, 2 * pl + 5)), ("d/payload/y", R(77, 1)), ("payload", R(78, 7))]),
        gen.FileList([("a./x", R(79, pl + 5)), ("a./b./y", R(80, 3)), ("dots../z", R(81, 16385)), (".hid/w", R(82, 2))]),
        gen.FileList([("xpayload/payload/y", R(83, 20000)), ("payload.bak", R(84, 1)), ("payload /s", R(85, pl))]),
    ]


def with_root_like_names(rng, files):
    """Add entries named like / ending with the name of the root to a random tree."""
    from harness.common import Blob
    from harness import gen
    out = gen.FileList(files)
    out.emptydirs = tuple(getattr(files, "emptydirs", ()))
    taken = lambda rel: any(r == rel or r.startswith(rel + "/") or rel.startswith(r + "/") for r, _ in out) or \
        any(d == rel or d.startswith(rel + "/") or rel.startswith(d + "/") for d in out.emptydirs)  # noqa: E731
    for rel in rng.sample(["payload/inner.txt", "my payload/ref.html", "d/payload/x", "payload/payload/z",
                           "end./dot", "xpayload/payload/y", "Live payload/t"], rng.randrange(1, 4)):
        if not taken(rel):
            out.append((rel, Blob.rand(rng.randrange(1, 30), rng.choice([0, 3, 20000, 16384, 40000]))))
    return out


def run(tier, seed, replay=None):
    run = Run("C03", tier, seed, RULE)
    drv = Driver()

    def still_fails(c):
        probe = Run("C03", tier, seed, RULE)
        files = cr.files_of_case(c)
        run_case(probe, Driver(), files, c["pl"], c["single"], "shrink", relative=c.get("relative"))
        return any(f.kind == "impl-vs-spec" for f in probe.failures)
    run.shrinker = still_fails
    if replay:
        c = replay["case"]
        files = cr.files_of_case(c)
        run_case(run, drv, files, c["pl"], c["single"], "replay", relative=c.get("relative"))
    else:
        from harness.common import corpus_cases
        for c in corpus_cases("C03"):
            files = cr.files_of_case(c)
            run_case(run, drv, files, c["pl"], c["single"], "corpus")
        for files, pl, single in cr.corner_cases():
            run_case(run, drv, files, pl, single, "corner")
        # relative content paths (library and command line), trees with entries named like the root
        for pl in (16384, 32768):
            for n, files in enumerate(named_like_root(pl)):
                for k, relative in enumerate(RELATIVE):
                    if pl == 16384 or (n + k) % 3 == 0:
                        run_case(run, drv, files, pl, False, "named-like-root", relative=relative)
            run_case(run, drv, named_like_root(pl)[1], pl, False, "named-like-root")
        import random
        for i in range(80 if tier == "quick" else 800):
            files, pl, single = cr.make_case(run.rng, tier, single_p=0.3)
            run_case(run, drv, files, pl, single, "random")
            # (own generator: the stream of the cases above stays what it was)
            rng2 = random.Random(f"{seed}/relative/{i}")
            if rng2.random() < 0.3:
                if not single and rng2.random() < 0.6:
                    files = with_root_like_names(rng2, files)
                run_case(run, drv, files, pl, single, "random-relative", relative=rng2.choice(RELATIVE))
    settle_model(run, drv)
    return run.finish()

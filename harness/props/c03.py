"""C03 - hybrid metafile: v1 view and v2 view describe the same payload."""
import os

from harness import impl, refspec
from harness.common import Driver, Run, sandbox
from harness.props import creation as cr
from harness.props.c02 import settle_model

RULE = ("trees / single files as in C02 through both hybrid creators (TorrentAssembler "
        "meta_version 3, TorrentFileHybrid); distinct by (pl, sorted per-file residues); "
        "non-trivial when some file needs padding (size % pl != 0) or single file with a "
        "short last piece")


def run_case(run, drv, files, pl, single, tag):
    case = {"links": cr.links(files),
            "files": [(rel, b.token()) for rel, b in files], "pl": pl, "single": single,
            "gen": tag}
    with sandbox("c03") as box:
        root, name = cr.materialize(box, files, single)
        for kind in ("a3", "hy"):
            out = os.path.join(box, kind + ".torrent")
            try:
                spelled, prog = cr.variant(run.rng, root, single)
                raw = impl.create(kind, spelled, out, piece_length=pl, progress=prog)
            except Exception as exc:
                run.fail("impl-vs-spec", dict(case, creator=kind), {"raised": repr(exc)})
                continue
            meta = impl.decode(raw)
            cr.ask_createfull(drv, ("createfull", dict(case, creator=kind), raw), kind, files, pl,
                              single, name, raw)
            why = cr.check_hybrid_view(meta, files, pl, single, name) or \
                cr.check_v2_view(meta, files, pl, single, name)
            if why:
                run.fail("impl-vs-spec", dict(case, creator=kind), {"why": why})
        rel, blob = max(files, key=lambda f: len(f[1]) % pl)
        if len(blob):
            path = root if single else os.path.join(root, *rel.split("/"))
            cr.ask_hashers(drv, blob, pl, (case, rel, cr.run_hashers(path, pl), blob, pl))
    run.case(cr.shape(files, pl) + [single], any(len(b) % pl for _, b in files), sample=case,
             classes=[f"files={len(files)}", f"pl={pl}", "single" if single else "dir"])


def run(tier, seed, replay=None):
    run = Run("C03", tier, seed, RULE)
    drv = Driver()

    def still_fails(c):
        probe = Run("C03", tier, seed, RULE)
        files = cr.files_of_case(c)
        run_case(probe, Driver(), files, c["pl"], c["single"], "shrink")
        return any(f.kind == "impl-vs-spec" for f in probe.failures)
    run.shrinker = still_fails
    if replay:
        c = replay["case"]
        files = cr.files_of_case(c)
        run_case(run, drv, files, c["pl"], c["single"], "replay")
    else:
        from harness.common import corpus_cases
        for c in corpus_cases("C03"):
            files = cr.files_of_case(c)
            run_case(run, drv, files, c["pl"], c["single"], "corpus")
        for files, pl, single in cr.corner_cases():
            run_case(run, drv, files, pl, single, "corner")
        for _ in range(80 if tier == "quick" else 800):
            files, pl, single = cr.make_case(run.rng, tier, single_p=0.3)
            run_case(run, drv, files, pl, single, "random")
    settle_model(run, drv)
    return run.finish()

"""C17 - an interrupted or failed edit never loses or truncates the metafile."""
import concurrent.futures
import json
import os
import random
import shutil
import subprocess
import sys

from harness import effects, impl, refspec
from harness.common import (REPO, VERIF, Driver, MachineryError, Run, hx, sandbox)
from harness.props import metas
from harness.props.c07 import gen_request

RULE = ("metafiles of all versions x edit requests; (a) the audit-hook trace of the real "
        "edit_torrent is compared with the model's operation list; (b) fault enumeration in "
        "fresh interpreters: the process is killed before each mutating operation and inside "
        "the write after prefixes {0,1,half,len-1}; each operation raises PermissionError / "
        "ENOSPC (the write after the same prefixes); requests whose values cannot be encoded; "
        "a leftover '<metafile>.part' (regular file, symbolic link or hard link, of the metafile "
        "itself or of another file) under the same faults; "
        "after every fault the path must strictly decode to the complete old or complete new "
        "metafile (old when an error was raised before the replace); distinct by (version, "
        "request shape, fault kind, op index, prefix class); non-trivial when the fault point "
        "is strictly inside the operation list")

UNENCODABLE = [{"comment": 1.5}, {"announce": [None]}, {"url-list": [1.5, "x"]},
               {"source": {"a": 1.5}}, {"httpseeds": [object]}]


KIND = [0]


def inject(spec, cwd):
    env = dict(os.environ, VERIF_HOME=VERIF, VERIF_REPO=REPO, PYTHONPATH=VERIF)
    proc = subprocess.run([sys.executable, "-m", "harness.faulty_edit"], input=json.dumps(spec),
                          capture_output=True, text=True, cwd=cwd, env=env)
    obs = None
    for line in proc.stdout.splitlines():
        if line.startswith("OBS "):
            obs = json.loads(line[4:])
    return proc.returncode, obs, proc.stderr[-300:]


STALE_KINDS = ("file", "link-to-metafile", "link-to-other", "hardlink-to-metafile", "hardlink-to-other")


def faults_for(length, full_kind="hardlink-to-metafile"):
    prefixes = sorted({0, 1, length // 2, max(0, length - 1)})
    out = []
    for k in range(0, 4):
        out.append({"mode": "kill", "k": k})
        out.append({"mode": "raise", "k": k, "error": "perm"})
    for p in prefixes:
        out.append({"mode": "kill-write", "prefix": p})
        out.append({"mode": "raise-write", "prefix": p, "error": "nospace"})
    out.append({"mode": "short-oswrite", "prefix": max(1, length // 2)})
    out.append({"mode": "kill-after-replace"})
    # the same faults where the user cannot create entries in the metafile's directory while the
    # metafile itself is writable (a read-only directory, a sticky spool): no fallback may
    # rewrite the metafile in place
    out.append({"mode": "none", "readonly_dir": True})
    for p in prefixes[1:]:
        out.append({"mode": "kill-write", "prefix": p, "readonly_dir": True})
        out.append({"mode": "raise-write", "prefix": p, "error": "nospace", "readonly_dir": True})
    out.append({"mode": "short-oswrite", "prefix": max(1, length // 2), "readonly_dir": True})
    # the data reach the disk only when the file is closed, and the error strikes there
    for p in prefixes:
        out.append({"mode": "raise-close", "prefix": p, "error": "nospace"})
    # the same faults after an earlier successful edit in the same process
    out.append({"mode": "raise-write", "prefix": prefixes[1], "error": "nospace", "warmup": True})
    out.append({"mode": "raise", "k": 1, "error": "perm", "warmup": True})
    # a leftover '<metafile>.part': a regular file, a symbolic link to the metafile / to another
    # file, a HARD link (second name of the same inode) of the metafile / of another file
    mid = max(1, length // 2)
    for kind in STALE_KINDS:
        out.append({"mode": "none", "stale_part": kind})
        out.append({"mode": "kill-write", "prefix": mid, "stale_part": kind})
        if kind.startswith("hardlink") or kind == full_kind:
            # the process dies right after the output was opened; the write fails half way
            out.append({"mode": "kill-write", "prefix": 0, "stale_part": kind})
            out.append({"mode": "raise-write", "prefix": mid, "error": "nospace", "stale_part": kind})
        if kind == full_kind:
            # ... and every other fault point (one leftover kind per case, in rotation)
            for k in range(0, 4):
                out.append({"mode": "kill", "k": k, "stale_part": kind})
                out.append({"mode": "raise", "k": k, "error": "perm", "stale_part": kind})
            out.append({"mode": "raise-write", "prefix": 0, "error": "nospace", "stale_part": kind})
            out.append({"mode": "kill-write", "prefix": max(0, length - 1), "stale_part": kind})
            out.append({"mode": "short-oswrite", "prefix": mid, "stale_part": kind})
            out.append({"mode": "raise-close", "prefix": mid, "error": "nospace", "stale_part": kind})
            out.append({"mode": "kill-after-replace", "stale_part": kind})
    return out


def run_case(run, drv, case_seed, pool):
    rng = random.Random(case_seed)
    with sandbox("c17") as box:
        m = metas.make_meta(rng, box)
        old = m["raw"]
        req = gen_request(rng)
        for k, v in list(req.items()):
            if v is None:
                del req[k]
        if case_seed in (-4, -5):
            # fixed shapes: the edited metafile is exactly as long as the one it replaces
            impl.edit(m["path"], {"comment": "pass-key-AAAA", "source": "S1"})
            old = m["raw"] = open(m["path"], "rb").read()
            req = {"comment": "pass-key-BBBB"} if case_seed == -4 else {"source": "S2", "comment": "pass-key-CCCC"}
        elif case_seed < 0:
            # fixed shapes: the edited encoding is exactly k * 65536 + 1 bytes long (chunked writers)
            target = {-1: 65537, -2: 131073, -3: 65536}[case_seed]
            req = {"comment": "x"}
            for _ in range(4):
                probe = os.path.join(box, "probe.torrent")
                shutil.copy(m["path"], probe)
                impl.edit(probe, dict(req))
                delta = target - os.path.getsize(probe)
                if delta == 0:
                    break
                req = {"comment": "x" * max(1, len(req["comment"]) + delta)}
        # the fault-free result and trace
        good = os.path.join(box, "good.torrent")
        shutil.copy(m["path"], good)
        with effects.traced(record_reads=True, read_root=box) as tr:
            impl.edit(good, dict(req))
        new = open(good, "rb").read()
        try:
            refspec.strict_decode(new)
        except refspec.BErr as exc:
            run.fail("impl-vs-spec", {"case_seed": case_seed, "version": m["version"], "req": req},
                     {"why": "a fault-free edit left an incomplete metafile", "error": str(exc), "size": len(new)})
        trace = [(e[0] if e[0] != "truncate" else "create",) + tuple(os.path.basename(p) for p in e[1:])
                 for e in tr.mutating()]
        reads = [os.path.basename(p) for p in tr.reads]
        case = {"case_seed": case_seed, "version": m["version"], "req": req}
        drv.ask(f"ops edit {hx(b'good.torrent')} 1", ("ops", case, (reads, trace)))
        rot = KIND[0]
        link = ["plain", "bare-relative", "symlink", "hardlink", "part-named"][rot % 5]
        KIND[0] += 1
        case["link"] = link
        case["rot"] = rot
        jobs = []
        # the leftover kind that meets every fault point in this case (rotates against `link`)
        specs = faults_for(len(new), STALE_KINDS[(rot + rot // 5) % 5])
        specs += [{"mode": "none", "req": r} for r in UNENCODABLE]
        specs += [{"mode": "none", "req": r, "warmup": True} for r in UNENCODABLE[:3]]
        for i, f in enumerate(specs):
            path = os.path.join(box, f"f{i}.torrent")
            if link == "part-named":
                # the metafile's own name ends in '.part' (an unfinished download of a .torrent)
                path = os.path.join(box, f"f{i}.part" if i % 2 else f"f{i}.torrent.part")
            if link in ("plain", "bare-relative", "part-named"):
                shutil.copy(m["path"], path)
            else:
                real = os.path.join(box, f"real{i}.torrent")
                shutil.copy(m["path"], real)
                (os.symlink if link == "symlink" else os.link)(real, path)
            spec = dict(f, metafile=path, req=f.get("req", req), relative=(link == "bare-relative"))
            if "req" in f:
                spec["req"] = {k: (None if v is object else v) for k, v in f["req"].items()} \
                    if False else _jsonable(f["req"])
            jobs.append((f, path, pool.submit(inject, spec, box)))
        second_edit_after_crash(run, rng, box, m, req, pool)
        for f, path, fut in jobs:
            rc, obs, err = fut.result()
            killed = rc == 37
            if not killed and obs is None:
                raise MachineryError(f"fault runner failed rc={rc}: {err}")
            state = open(path, "rb").read() if os.path.exists(path) else None
            verdict = "old" if state == old else "new" if state == new else \
                "missing" if state is None else "other"
            unenc = "req" in f
            want_new = _expected_new(old, f.get("req")) if unenc else None
            fc = dict(case, fault={k: v for k, v in f.items() if k != "req"} if not unenc
                      else {"unencodable": repr(f["req"])})
            events = None if obs is None else len(obs["events"])
            inside = (f.get("mode") in ("kill-write", "raise-write")) or \
                (f.get("mode") in ("kill", "raise") and f.get("k", 0) in (0, 1))
            run.case([m["version"], sorted(req), f.get("mode"), f.get("k"),
                      _pclass(f.get("prefix"), len(new)), f.get("error"),
                      repr(f.get("req"))[:30]] + ([f["stale_part"]] if f.get("stale_part") else []),
                     inside, sample=fc,
                     classes=[f.get("mode", "unencodable"), verdict] +
                     ([f"leftover:{f['stale_part']}"] if f.get("stale_part") else []))
            if verdict in ("missing", "other"):
                try:
                    refspec.strict_decode(state or b"")
                    complete = True
                except refspec.BErr:
                    complete = False
                run.fail("impl-vs-spec", fc, {"why": f"metafile path holds {verdict}",
                                              "complete_bencoding": complete,
                                              "size": None if state is None else len(state),
                                              "old": len(old), "new": len(new)})
                continue
            raised = obs and obs.get("raised")
            if raised and verdict == "new" and f.get("mode") in ("raise", "raise-write") and \
                    f.get("k", 9) <= 1:
                run.fail("impl-vs-spec", fc, {"why": "edit raised before the replace but the "
                                                     "metafile changed"})
            if unenc and verdict != "old":
                run.fail("impl-vs-spec", fc, {"why": "unencodable request changed the metafile"})
            # model tie
            if f.get("stale_part") and os.path.exists(path + ".other") and \
                    open(path + ".other", "rb").read() != b"an unrelated file that must survive":
                run.fail("impl-vs-spec", fc, {"why": "the edit wrote through a leftover '.part' link into "
                                                     "another file"})
            if f.get("readonly_dir") or f.get("stale_part") or f.get("warmup") or f.get("mode") == "raise-close":
                pass        # the standing condition is outside the operation model (Effects.lean)
            elif f.get("mode") == "kill":
                c = {0: 1, 1: 3}.get(f["k"], 4)
                drv.ask(f"editcrash {c} 0 {hx(old)} {hx(new)}", ("state", fc, verdict))
            elif f.get("mode") == "kill-write":
                drv.ask(f"editcrash 2 {f['prefix']} {hx(old)} {hx(new)}", ("state", fc, verdict))
            elif f.get("mode") == "raise":
                i = {0: 1, 1: 3}.get(f["k"], 9)
                drv.ask(f"editerror {i} 0 {hx(old)} {hx(new)}", ("state", fc, verdict))
            elif f.get("mode") == "raise-write":
                drv.ask(f"editerror 2 {f['prefix']} {hx(old)} {hx(new)}", ("state", fc, verdict))
            elif unenc:
                drv.ask(f"editerror 9 0 {hx(old)} none", ("state", fc, verdict))


def interactive_route(run, pool):
    """The same faults through the interactive editor (a metafile without trackers, one comment
    typed at the prompt): whichever front end performs the edit, the path holds the complete
    previous or the complete edited metafile."""
    rng = random.Random(4711)
    with sandbox("c17i") as box:
        m = metas.make_meta(rng, box, version=rng.choice([1, 2, 3]), via_cli=False, opts={})
        old = m["raw"]
        req = {"comment": "typed at the prompt"}
        ref = os.path.join(box, "ref.torrent")
        shutil.copy(m["path"], ref)
        rc, obs, err = inject({"mode": "none", "route": "interactive", "metafile": ref, "req": req}, box)
        new = open(ref, "rb").read() if os.path.exists(ref) else b""
        case = {"route": "interactive", "version": m["version"], "req": req}
        try:
            ok = refspec.strict_decode(new)[b"info"].get(b"comment") == b"typed at the prompt"
        except Exception:
            ok = False
        if not ok:
            run.fail("impl-vs-spec", case, {"why": "the fault-free interactive edit did not produce a complete "
                                                   "metafile with the comment set", "raised": obs and obs.get("raised")})
            return
        jobs = []
        for i, f in enumerate([f for f in faults_for(len(new)) if not f.get("readonly_dir") and not f.get("warmup")]):
            path = os.path.join(box, f"i{i}.torrent")
            shutil.copy(m["path"], path)
            jobs.append((f, path, pool.submit(inject, dict(f, route="interactive", metafile=path, req=req), box)))
        for f, path, fut in jobs:
            rc, obs, err = fut.result()
            if rc != 37 and obs is None:
                raise MachineryError(f"fault runner failed rc={rc}: {err}")
            state = open(path, "rb").read() if os.path.isfile(path) and not os.path.islink(path) else None
            verdict = "old" if state == old else "new" if state == new else "missing" if state is None else "other"
            fc = dict(case, fault=f)
            run.case(["interactive", f.get("mode"), f.get("k"), _pclass(f.get("prefix"), len(new)), f.get("stale_part")],
                     True, sample=fc, classes=["interactive", verdict])
            if verdict in ("missing", "other"):
                run.fail("impl-vs-spec", fc, {"why": f"metafile path holds {verdict}",
                                              "size": None if state is None else len(state),
                                              "old": len(old), "new": len(new)})


def second_edit_after_crash(run, rng, box, m, req, pool):
    """An edit dies after writing '<metafile>.part' (before the rename); a later, fault-free
    edit of the same metafile must leave exactly its own complete result."""
    path = os.path.join(box, "seq.torrent")
    shutil.copy(m["path"], path)
    old = open(path, "rb").read()
    long_req = dict(req, comment="a rather long comment " * 40)
    rc, obs, err = inject({"mode": "kill", "k": 1, "metafile": path, "req": long_req}, box)
    after_crash = open(path, "rb").read() if os.path.exists(path) else None
    short_req = {"comment": "s"}
    good = os.path.join(box, "seq-good.torrent")
    with open(good, "wb") as fd:
        fd.write(old)
    impl.edit(good, dict(short_req))
    want = open(good, "rb").read()
    rc2, obs2, err2 = inject({"mode": "none", "metafile": path, "req": short_req}, box)
    final = open(path, "rb").read() if os.path.exists(path) else None
    case = {"sequence": "crash before rename, then a clean edit", "version": m["version"]}
    run.case(["sequence", m["version"]], True, sample=case, classes=["sequence"])
    if after_crash != old:
        run.fail("impl-vs-spec", case, {"why": "metafile changed by the interrupted edit"})
    elif final != want:
        run.fail("impl-vs-spec", case, {"why": "clean edit after an interrupted one did not leave "
                                                "exactly its result",
                                         "size": None if final is None else len(final), "expected": len(want)})


def _jsonable(req):
    out = {}
    for k, v in req.items():
        if isinstance(v, list):
            out[k] = [None if x is object or x is None else x for x in v]
        else:
            out[k] = v
    return out


def _expected_new(old, req):
    return None


def _pclass(p, n):
    if p is None:
        return None
    return "0" if p == 0 else "1" if p == 1 else "len-1" if p == n - 1 else "mid"


def run(tier, seed, replay=None):
    impl.use_repo()
    run = Run("C17", tier, seed, RULE)
    drv = Driver()
    if replay and replay["case"].get("route") == "interactive":
        with concurrent.futures.ThreadPoolExecutor(max_workers=8) as pool:
            interactive_route(run, pool)
        return run.finish()
    if replay:
        KIND[0] = replay["case"].get("rot", 0)      # the same metafile-path kind and leftover rotation
    seeds = [replay["case"]["case_seed"]] if replay else \
        [-1, -2, -3, -4, -5] + [run.rng.randrange(10 ** 9) for _ in range(6 if tier == "quick" else 40)]
    with concurrent.futures.ThreadPoolExecutor(max_workers=12) as pool:
        for s in seeds:
            run_case(run, drv, s, pool)
        if not replay:
            interactive_route(run, pool)
    for (kind, case, got), req, out in drv.run():
        if out.startswith("ERR"):
            if os.environ.get("VERIF_DEV") and "bad-op" in out:
                continue
            raise MachineryError(f"driver: {req[:40]} -> {out[:100]}")
        run.model_checked += 1
        if kind == "state":
            model = out.split()[0]
            if model != got:
                run.fail("impl-vs-model", case, {"correspondence": "Impl.editOps crash/error state",
                                                 "model": out[:80], "impl": got})
        else:
            reads, trace = got
            toks = [t.split(":") for t in out.split()] if out.strip() != "-" else []
            dec = lambda h: bytes.fromhex(h).decode()
            model_mut = [(t[0],) + tuple(dec(x) for x in t[1:]) for t in toks
                         if t[0] in ("create", "replace", "remove", "touch")]
            model_mut = [("rename",) + t[1:] if t[0] == "replace" else t for t in model_mut]
            if model_mut != trace:
                run.fail("impl-vs-model", case, {"correspondence": "Impl.editOps vs audit trace",
                                                 "model": model_mut, "impl": trace})
    return run.finish()

"""C11 - magnet URI carries the true info-hash(es), name, trackers and web seeds."""
import hashlib
import os
import random
from urllib.parse import unquote_plus

from harness import impl, refspec
from harness.common import Driver, MachineryError, Run, hx, sandbox
from harness.props import metas
from harness.props.c07 import apply_request_impl, gen_request

RULE = ("metafiles created here (all versions, hostile names/URLs), edited here, and written "
        "by the reference encoder with arbitrary key sets (announce only / announce-list with "
        "several tiers / url-list as list or single string / unknown keys / unsorted info); "
        "every satisfiable version request (0; 1,2,3 for hybrids); the URI is parsed with "
        "urllib and compared with SHA-1/SHA-256 of the raw info span, name, trackers, seeds; "
        "distinct by (version, source, key set, request); non-trivial when a name/URL has "
        "reserved or non-ASCII characters or the key set is foreign")

HOSTILE = ["a b", "a&b=c", "100%", "x+y", "#1", "é😀", "p/q", "~t.-_", "日本語", "a%26b", "?q",
           # characters str.isprintable() rejects: they belong to the name all the same
           "tab\there", "zero\u200dwidth", "\u202eflipped", "soft\u00adhyphen", "line\nbreak", "del\x7f"]


def expected_parts(raw, version):
    meta = refspec.lenient_decode(raw)
    info = meta[b"info"]
    span = refspec.info_span(raw)
    has_v2 = b"meta version" in info
    has_v1 = b"pieces" in info
    xt = []
    if not has_v2 or (version in (0, 1, 3) and has_v1):
        xt.append("urn:btih:" + hashlib.sha1(span).hexdigest())
    if has_v2 and version != 1:
        xt.append("urn:btmh:1220" + hashlib.sha256(span).hexdigest())
    if b"announce-list" in meta:
        tr = [u for tier in meta[b"announce-list"] for u in tier]
    elif b"announce" in meta:
        tr = [meta[b"announce"]]
    else:
        tr = []
    ws = meta.get(b"url-list", [])
    if isinstance(ws, bytes):
        ws = [ws]
    return xt, info[b"name"], tr, ws


def satisfiable(raw, version):
    info = refspec.lenient_decode(raw)[b"info"]
    hybrid = b"meta version" in info and b"pieces" in info
    return version == 0 or hybrid


def parse(uri):
    assert uri.startswith("magnet:?"), uri
    out = {"xt": [], "dn": [], "tr": [], "ws": []}
    for part in uri[len("magnet:?"):].split("&"):
        k, _, v = part.partition("=")
        out.setdefault(k, []).append(v)
    return out


def judge(run, drv, case, raw, path, version, uri=None):
    try:
        if uri is not None:
            pass
        elif case.get("case_seed", 0) % 3 == 0:
            # the command line, sometimes verbose / quiet
            flag = [[], ["-v"], ["-q"]][(case.get("case_seed", 0) // 3) % 3]
            uri = impl.cli(flag + ["magnet", path, "--meta-version", str(version)])
        else:
            uri = impl.magnet(path, version)
    except Exception as exc:
        run.fail("impl-vs-spec", dict(case, request=version), {"raised": repr(exc)})
        return
    xt, name, tr, ws = expected_parts(raw, version)
    got = parse(uri)
    why = None
    if got["xt"] != xt:
        why = f"xt {got['xt']} != {xt}"
    elif [unquote_plus(x, errors="surrogateescape").encode("utf8", "surrogateescape") for x in got["dn"]] != [name]:
        why = "dn does not decode to the name"
    elif [unquote_plus(x).encode("utf8") for x in got["tr"]] != [u for u in tr if u or len(tr) > 1]:
        why = f"tr {got['tr']} does not decode to {tr}"
    elif [unquote_plus(x).encode("utf8") for x in got["ws"]] != [u for u in ws if u or len(ws) > 1]:
        why = f"ws {got['ws']} does not decode to {ws}"
    elif set(got) - {"xt", "dn", "tr", "ws"}:
        why = "unexpected parameters"
    if why:
        run.fail("impl-vs-spec", dict(case, request=version), {"why": why, "uri": uri[:300]})
    drv.ask(f"magnet {hx(raw)} {version}", (dict(case, request=version), uri))


def ref_meta(rng, box):
    """Reference-encoder metafile with a foreign key set."""
    pl = 16384
    version = rng.choice([1, 2, 3])
    single = rng.random() < 0.4
    name = rng.choice(HOSTILE + ["plain"]).replace("/", "_")
    files = [((name,) if single else ("f%d" % i,), bytes([i + 1]) * rng.choice([5, pl, pl + 3]))
             for i in range(1 if single else rng.randrange(1, 4))]
    extra = {}
    shape = rng.choice(["announce", "list", "list+announce", "none"])
    urls = rng.sample(metas.URLS, 3)
    if shape in ("announce", "list+announce"):
        extra["announce"] = urls[0]
    if shape in ("list", "list+announce"):
        extra["announce-list"] = [[urls[0], urls[1]], [urls[2]]] if rng.random() < 0.6 else [[urls[1]]]
    ws = rng.choice(["none", "list", "string"])
    if ws == "list":
        extra["url-list"] = rng.sample(metas.URLS, 2)
    elif ws == "string":
        extra["url-list"] = rng.choice(metas.URLS + ["http://seed.example/my files/disc 1/?a=1&b=2#x+y",
                                                     "http://x.y/a b"] * 4)
    if rng.random() < 0.5:
        extra["x-unknown"] = {"k": [1, "two", {"z": -3}]}
    if rng.random() < 0.4:
        # the bytes "4:info" before the real info dictionary
        extra.update(rng.choice([{"comment": "info"}, {"azureus_properties": {"info": 5}},
                                 {"a-list": ["info", "x"]}, {"created by": "info"}]))
    info_extra = {"private": 1} if rng.random() < 0.3 else {}
    if rng.random() < 0.3:
        info_extra["zzz-ext"] = "v"
    if rng.random() < 0.4:
        # unknown keys INSIDE info that are named like top-level fields: they are part of the
        # info dictionary (and of the hash), never trackers or web seeds of the torrent
        decoys = {"announce": "http://decoy.invalid/announce",
                  "announce-list": [["http://decoy.invalid/tier1"], ["udp://decoy.invalid:1"]],
                  "url-list": ["http://decoy.invalid/seed/"], "httpseeds": ["http://decoy.invalid/h"],
                  "comment": "decoy", "created by": "decoy"}
        for k in rng.sample(sorted(decoys), rng.randrange(1, 4)):
            info_extra[k] = decoys[k]
    meta = refspec.ref_metafile(name, files, pl, version, single=single, trailing_pad=True,
                                with_length=rng.random() < 0.5, extra=extra,
                                info_extra=info_extra)
    shuffled = rng.random() < 0.4
    if shuffled:
        items = list(meta["info"].items())
        rng.shuffle(items)
        meta["info"] = dict(items)
        top = list(meta.items())
        rng.shuffle(top)
        raw = refspec.encode_ordered(dict(top))
    else:
        raw = refspec.encode(meta)
    path = os.path.join(box, "r.torrent")
    with open(path, "wb") as fd:
        fd.write(raw)
    return raw, path, {"source": "ref", "version": version, "shape": shape, "ws": ws,
                       "name": name, "keys": sorted(extra) + sorted(info_extra),
                       "unsorted": shuffled}


def run_case(run, drv, case_seed):
    rng = random.Random(case_seed)
    with sandbox("c11") as box:
        kind = rng.choice(["own", "own", "edited", "ref", "ref"])
        if kind == "ref":
            raw, path, desc = ref_meta(rng, box)
            hostile = True
        else:
            opts = metas.options(rng, none_p=0.2)
            try:
                m = metas.make_meta(rng, box, opts=opts)
                # hostile payload name: rename the payload root before creating
                if kind == "edited":
                    for _ in range(rng.randrange(1, 4)):
                        apply_request_impl(m["path"], gen_request(rng), rng.random() < 0.3)
                    # an earlier magnet request for the same path in this process, then an edit
                    # that keeps the file length: the next URI must describe the file as it is now
                    impl.edit(m["path"], {"announce": ["http://t.example/announcA"], "comment": "abc"})
                    try:
                        impl.magnet(m["path"], 0)
                    except Exception:
                        pass
                    impl.edit(m["path"], {"announce": ["http://t.example/announcB"], "comment": "abd"})
                refspec.lenient_decode(open(m["path"], "rb").read())
            except (Exception, impl.CliExit):
                # creating / editing failed or wrote something that is no metafile: not what C11
                # judges (C06 / C07 do); there is no metafile to ask a magnet URI for
                run.case(["setup-raised", case_seed], False, classes=["setup-raised"])
                return
            raw, path = open(m["path"], "rb").read(), m["path"]
            desc = {"source": kind, "version": m["version"], "opts": sorted(m["opts"]),
                    "creator": m["creator"]}
            hostile = any(any(ord(c) > 127 or c in " &=%+#" for c in u)
                          for k in ("announce", "url_list") for u in m["opts"].get(k, [])) \
                or any(ord(c) > 127 or c in " &=%+#" for c in m["name"])
        case = dict(desc, case_seed=case_seed)
        for version in (0, 1, 2, 3):
            if satisfiable(raw, version):
                judge(run, drv, case, raw, path, version)
    run.case(sorted((k, str(v)) for k, v in desc.items()), hostile, sample=case,
             classes=[desc["source"], f"v{desc['version']}"])


def hostile_names(run, drv, rng):
    """Own metafiles whose payload name is hostile."""
    from harness.common import write_tree
    for name in HOSTILE:
        if "/" in name:
            continue
        with sandbox("c11n") as box:
            root = os.path.join(box, name)
            write_tree(root, [("f", b"abc" * 100)])
            out = os.path.join(box, "o.torrent")
            ver = rng.choice([1, 2, 3])
            raw = impl.create({1: "v1", 2: "a2", 3: "a3"}[ver], root, out, piece_length=16384,
                              announce=[rng.choice(metas.URLS)])
            case = {"source": "own-hostile-name", "name": name, "version": ver}
            for version in (0, 1, 2, 3):
                if satisfiable(raw, version):
                    judge(run, drv, case, raw, out, version)
            run.case(["name", name, ver], True, sample=case, classes=["hostile-name"])


def empty_payloads(run, drv, rng):
    """Metafiles of payloads without a single byte (empty pieces string, no pieces root):
    they still have an info dictionary, so the URI must carry its hash(es)."""
    from harness.common import write_tree
    for ver, kind in ((1, "v1"), (2, "a2"), (2, "v2"), (3, "a3"), (3, "hy")):
        for single in (False, True):
            with sandbox("c11e") as box:
                root = os.path.join(box, "nothing")
                write_tree(box if single else root, [("nothing" if single else "d/e", b"")] +
                           ([] if single else [("z", b"")]))
                out = os.path.join(box, "o.torrent")
                case = {"source": "own-empty-payload", "creator": kind, "single": single, "version": ver}
                try:
                    raw = impl.create(kind, root, out, piece_length=16384, announce=[rng.choice(metas.URLS)])
                except Exception:
                    continue        # whether an empty payload can be created is not C11's business
                for version in (0, 1, 2, 3):
                    if satisfiable(raw, version):
                        judge(run, drv, case, raw, out, version)
                run.case(["empty", kind, single], True, sample=case, classes=["empty-payload"])


def create_magnet(run, drv, rng):
    """`create --magnet` prints the URI of the metafile it has just written (automatic version):
    the same judgement as for the magnet command."""
    from harness.common import write_tree
    for ver in ("1", "2", "3"):
        for flags in ([], ["-v"]):
            with sandbox("c11c") as box:
                root = os.path.join(box, "payload dir")
                write_tree(root, [("a", b"abc" * 7000), ("b/c", b"")])
                out = os.path.join(box, "o.torrent")
                url = rng.choice(metas.URLS)
                case = {"source": "create --magnet", "version": int(ver), "flags": flags, "tracker": url}
                try:
                    text = impl.cli_out(flags + ["create", "--magnet", "--meta-version", ver, "--prog", "0",
                                                 "-o", out, root, "-a", url])
                except BaseException as exc:  # noqa
                    run.fail("impl-vs-spec", case, {"raised": repr(exc)[:200]})
                    continue
                uris = [ln for ln in text.splitlines() if ln.startswith("magnet:?")]
                if not uris:
                    run.fail("impl-vs-spec", case, {"why": "create --magnet printed no magnet URI"})
                    continue
                judge(run, drv, case, open(out, "rb").read(), out, 0, uri=uris[-1])
                run.case(["create-magnet", ver, bool(flags)], True, sample=case, classes=["create --magnet"])


def run(tier, seed, replay=None):
    run = Run("C11", tier, seed, RULE)
    drv = Driver()
    if replay and "case_seed" in replay["case"]:
        run_case(run, drv, replay["case"]["case_seed"])
    else:
        for _ in range(100 if tier == "quick" else 1000):
            run_case(run, drv, run.rng.randrange(10 ** 9))
        hostile_names(run, drv, run.rng)
        empty_payloads(run, drv, run.rng)
        create_magnet(run, drv, run.rng)
    for (case, uri), req, out in drv.run():
        if out.startswith("ERR"):
            if os.environ.get("VERIF_DEV") and "bad-op" in out:
                continue
            raise MachineryError(f"driver: {req[:40]} -> {out[:100]}")
        run.model_checked += 1
        if bytes.fromhex(out.strip()) != uri.encode("utf8"):
            run.fail("impl-vs-model", case, {"correspondence": "Impl.magnet",
                                             "model": bytes.fromhex(out.strip())[:200].decode("utf8", "replace"),
                                             "impl": uri[:200]})
    return run.finish()

"""Shared helpers for the metafile-level properties C06, C07, C11 (and C08/C20):
option generators, structural validity, building metafiles of all kinds."""
import os

from harness import gen, impl, refspec
from harness.common import write_tree
from harness.props import creation as cr

URLS = ["http://t.example/announce", "udp://tracker.example:6969", "https://a.b/c?d=e&f=g",
        "http://x.y/a b", "http://ü.example/é", "http://h/%41+%2B#frag", "wss://t/~u=1",
        "http://tr/𝄞", "ftp://ftp.example.site/content", "http://w/one",
        # URLs a "cleaning" helper would re-spell (capitalised scheme, bare ? or #, a tab)
        "HTTP://Tracker.Example/Announce", "http://t.example/a?", "http://t.example/a#", "http://t.example/a\tb",
        # a directory mirror (BEP 19 form) and a URL with commas
        "http://mirror.example/pub/", "http://t.example/x?parts=1,2,3"]
WORDS = ["hello", "a comment with spaces", "x=y&z", "100%", "émoji 😀", "#tag", "plus+plus",
         "src", "PTP", "tracker-x", "~", "q?", " padded ", "  ", "tail ", "\tt",
         "@alexpdev thanks", "@home", "@"]


def options(rng, none_p=0.35):
    """Random subset of the create options that land in the metafile."""
    o = {}
    if rng.random() > none_p:
        o["announce"] = rng.sample(URLS, rng.randrange(1, 4))
    if rng.random() > 0.5:
        o["url_list"] = rng.sample(URLS, rng.randrange(1, 3))
    if rng.random() > 0.5:
        o["httpseeds"] = rng.sample(URLS, rng.randrange(1, 3))
    if rng.random() > 0.5:
        o["comment"] = rng.choice(WORDS)
    if rng.random() > 0.5:
        o["source"] = rng.choice(WORDS)
    if rng.random() > 0.6:
        o["private"] = True
    return o


def wellformed(meta, version):
    """Structural requirements of C06 for a decoded (bytes-keyed) metafile. None = fine."""
    if not isinstance(meta, dict) or not isinstance(meta.get(b"info"), dict):
        return "no info dictionary"
    info = meta[b"info"]
    if not isinstance(info.get(b"name"), bytes):
        return "name"
    if not isinstance(info.get(b"piece length"), int) or info[b"piece length"] <= 0:
        return "piece length"
    if version in (1, 3):
        if (b"length" in info) == (b"files" in info):
            return "need exactly one of length / files"
        p = info.get(b"pieces")
        if not isinstance(p, bytes) or len(p) % 20:
            return "pieces is not a string of 20-byte hashes"
        if b"files" in info:
            for e in info[b"files"]:
                if not isinstance(e.get(b"length"), int) or not isinstance(e.get(b"path"), list) \
                        or not e[b"path"]:
                    return "files entry"
    if version in (2, 3):
        if info.get(b"meta version") != 2:
            return "meta version"
        if not isinstance(info.get(b"file tree"), dict):
            return "file tree"
        layers = meta.get(b"piece layers")
        if not isinstance(layers, dict):
            return "piece layers missing at top level"
        for k, v in layers.items():
            if len(k) != 32 or not isinstance(v, bytes) or len(v) % 32 or not v:
                return "piece layers entry is not a string of 32-byte hashes"
        for _, leaf in cr.leaves_of(info[b"file tree"]):
            if not isinstance(leaf.get(b"length"), int):
                return "leaf length"
            if leaf[b"length"] and len(leaf.get(b"pieces root", b"")) != 32:
                return "leaf root"
            if leaf[b"length"] > info[b"piece length"] and leaf[b"pieces root"] not in layers:
                return "multi-piece file without piece layer"
    else:
        if b"meta version" in info:
            return "v1 metafile with meta version"
    return None


def small_tree(rng, pl, single=False):
    if rng.random() < 0.15:
        # many pieces: > 102 v1 pieces, > 64 pieces in one file
        from harness.common import Blob
        big = ("big.bin", Blob.rand(rng.randrange(1, 40), 110 * pl + rng.choice([0, 1, 777])))
        return [big] if single else [big, ("s", Blob.rand(3, 10))]
    if rng.random() < 0.07:
        # nothing but zero-length files ("for all content trees"): no piece at all
        from harness.common import Blob
        if single:
            return [(rng.choice(gen.NAMES), Blob.rand(1, 0))]
        return [(p, Blob.rand(1, 0)) for p in gen.rel_paths(rng, rng.choice([1, 2, 3]))]
    if single:
        size = rng.choice([1, 100, pl, pl + 5, 3 * pl - 1])
        return [(rng.choice(gen.NAMES), gen.pick_blob(rng, size))]
    files, _ = gen.tree(rng, cr.B, pl, max_files=4, big=False)
    return files


def make_meta(rng, box, version=None, via_cli=None, opts=None, single=None, tag="m", files=None, kind=None):
    """Create a payload and a metafile with random options. Returns dict."""
    pl = rng.choice([16384, 32768])
    version = version or rng.choice([1, 2, 3])
    single = rng.random() < 0.25 if single is None else single
    files = small_tree(rng, pl, single) if files is None else files
    root, name = cr.materialize(os.path.join(box, tag + "-p"), files, single) \
        if os.makedirs(os.path.join(box, tag + "-p"), exist_ok=True) is None else None
    opts = options(rng) if opts is None else opts
    out = os.path.join(box, tag + ".torrent")
    if rng.random() < 0.3:
        # the output path already holds an (older, longer) metafile: it must be replaced whole
        with open(out, "wb") as fd:
            fd.write(b"d8:announce9:http://x/4:infod4:name3:old12:piece lengthi16384ee" +
                     b"7:comment" + b"2000:" + b"x" * 2000 + b"e" + b"trailing junk" * 40)
    via_cli = rng.random() < 0.4 if via_cli is None else via_cli
    if via_cli:
        argv = ["create", "--prog", "0", "--piece-length", str(pl), "--meta-version",
                str(version), "-o", out]
        for key, flag in (("announce", "-a"), ("url_list", "--web-seed"),
                          ("httpseeds", "--http-seed")):
            if key in opts:
                argv += [flag] + opts[key]
        if "comment" in opts:
            argv += ["--comment", opts["comment"]]
        if "source" in opts:
            argv += ["--source", opts["source"]]
        if opts.get("private"):
            argv += ["--private"]
        argv += [root] if not any(k in opts for k in ("announce", "url_list", "httpseeds")) \
            or rng.random() < 0.5 else []
        if argv[-1] != root:
            argv = argv[:1] + [root] + argv[1:]
        impl.cli(argv)
        raw = open(out, "rb").read()
        kind = "cli"
    else:
        kind = kind or rng.choice({1: ["v1"], 2: ["a2", "v2"], 3: ["a3", "hy"]}[version])
        if kind == "v1" and not single and rng.random() < 0.3:
            # piece-aligned v1 (BEP 47 padding entries in the file list)
            raw = impl.create(kind, root, out, piece_length=pl, align=True, **opts)
            kind = "v1align"
        else:
            raw = impl.create(kind, root, out, piece_length=pl, **opts)
    return {"raw": raw, "path": out, "root": root, "name": name, "files": files, "pl": pl,
            "version": version, "single": single, "opts": opts, "creator": kind}

"""
Independent Python rendering of the specifications (BEP 3, BEP 47, BEP 52, bencoding),
written without looking at how torrentfile computes things.  Used (a) as the fast oracle
that finds failing inputs and (b) to cross-check the Lean `Spec.*` definitions: a
disagreement between the two is a machinery error, never a violation.
"""
import hashlib

BLOCK = 16384


def sha1(b):
    return hashlib.sha1(b).digest()


def sha256(b):
    return hashlib.sha256(b).digest()


# ----------------------------------------------------------------------------- BEP 3

def v1_pieces(stream, pl):
    return b"".join(sha1(stream[i:i + pl]) for i in range(0, len(stream), pl))


def gap(pl, size):
    return (-size) % pl


# ----------------------------------------------------------------------------- BEP 52

def np2(n):
    p = 1
    while p < n:
        p *= 2
    return p


def merkle(hashes):
    hashes = list(hashes)
    assert hashes and len(hashes) & (len(hashes) - 1) == 0
    while len(hashes) > 1:
        hashes = [sha256(hashes[i] + hashes[i + 1]) for i in range(0, len(hashes), 2)]
    return hashes[0]


def v2_file(data, pl, block=BLOCK, hs=32):
    """(pieces root, piece layer or None) of a non-empty file (flat formulation)."""
    assert data
    bpp = pl // block
    leaves = [sha256(data[i:i + block]) for i in range(0, len(data), block)]
    n = len(leaves)
    total = np2(n)
    padded = leaves + [bytes(hs)] * (total - n)
    root = merkle(padded)
    if len(data) <= pl:
        return root, None
    npieces = -(-n // bpp)
    layer = [merkle(padded[i * bpp:(i + 1) * bpp]) for i in range(npieces)]
    return root, b"".join(layer)


def v2_file_piecewise(data, pl, block=BLOCK, hs=32):
    """Second formulation: per-piece subtrees, then a tree over piece hashes."""
    bpp = pl // block
    leaves = [sha256(data[i:i + block]) for i in range(0, len(data), block)]
    if len(data) <= pl:
        return merkle(leaves + [bytes(hs)] * (np2(len(leaves)) - len(leaves))), None
    npieces = -(-len(leaves) // bpp)
    leaves += [bytes(hs)] * (npieces * bpp - len(leaves))
    layer = [merkle(leaves[i * bpp:(i + 1) * bpp]) for i in range(npieces)]
    padhash = merkle([bytes(hs)] * bpp)
    root = merkle(layer + [padhash] * (np2(npieces) - npieces))
    return root, b"".join(layer)


# ----------------------------------------------------------------------------- bencoding

class BErr(Exception):
    pass


def strict_decode(b):
    """Strict bencode decoder: sorted unique byte-string keys, minimal integers and
    lengths, nothing trailing. Strings come back as bytes."""
    v, i = _dec(b, 0)
    if i != len(b):
        raise BErr("trailing")
    return v


def _dec(b, i):
    if i >= len(b):
        raise BErr("eof")
    c = b[i:i + 1]
    if c == b"i":
        j = b.find(b"e", i)
        if j < 0:
            raise BErr("int eof")
        t = b[i + 1:j]
        if (not t or (t[0:1] == b"-" and (len(t) == 1 or t[1:2] == b"0"))
                or (t[0:1] == b"0" and len(t) > 1) or not t.lstrip(b"-").isdigit()
                or b"-" in t[1:]):
            raise BErr("int " + repr(t))
        return int(t), j + 1
    if c == b"l":
        i += 1
        out = []
        while b[i:i + 1] != b"e":
            v, i = _dec(b, i)
            out.append(v)
        return out, i + 1
    if c == b"d":
        i += 1
        out = {}
        last = None
        while b[i:i + 1] != b"e":
            k, i = _dec(b, i)
            if not isinstance(k, bytes):
                raise BErr("key type")
            if last is not None and not last < k:
                raise BErr("key order %r !< %r" % (last, k))
            last = k
            v, i = _dec(b, i)
            out[k] = v
        return out, i + 1
    if c.isdigit():
        j = b.find(b":", i)
        if j < 0:
            raise BErr("len eof")
        t = b[i:j]
        if not t.isdigit() or (t[0:1] == b"0" and len(t) > 1):
            raise BErr("len")
        n = int(t)
        if j + 1 + n > len(b):
            raise BErr("short")
        return b[j + 1:j + 1 + n], j + 1 + n
    raise BErr("tag %r" % c)


def lenient_spans(b):
    """(key, value-start, value-end) of the top-level dictionary, no canonicity demanded."""
    assert b[0:1] == b"d"
    i = 1
    out = []
    while b[i:i + 1] != b"e":
        k, i = _ldec(b, i)
        s = i
        _, i = _ldec(b, i)
        out.append((k, s, i))
    return out


def _ldec(b, i):
    c = b[i:i + 1]
    if c == b"i":
        j = b.index(b"e", i)
        return int(b[i + 1:j]), j + 1
    if c == b"l":
        i += 1
        out = []
        while b[i:i + 1] != b"e":
            v, i = _ldec(b, i)
            out.append(v)
        return out, i + 1
    if c == b"d":
        i += 1
        out = {}
        while b[i:i + 1] != b"e":
            k, i = _ldec(b, i)
            v, i = _ldec(b, i)
            out[k] = v
        return out, i + 1
    j = b.index(b":", i)
    n = int(b[i:j])
    return b[j + 1:j + 1 + n], j + 1 + n


def lenient_decode(b):
    """Decode without demanding canonicity (dict order preserved, last duplicate wins).
    Bytes that are not bencoding at all raise BErr (never another exception)."""
    try:
        value, end = _ldec(bytes(b), 0)
    except (ValueError, IndexError, RecursionError, TypeError) as exc:
        raise BErr(f"not bencoding: {type(exc).__name__}: {str(exc)[:80]}") from None
    if end > len(b):
        raise BErr("not bencoding: a string runs past the end of the data")
    return value


def info_span(b):
    try:
        spans = lenient_spans(b)
    except (ValueError, IndexError, RecursionError, TypeError) as exc:
        raise BErr(f"not bencoding: {type(exc).__name__}: {str(exc)[:80]}") from None
    for k, s, e in spans:
        if k == b"info":
            return b[s:e]
    return None


def encode(v):
    """Reference canonical encoder (dict keys bytes or str; sorted by raw bytes)."""
    if isinstance(v, bool):
        raise TypeError("bool")
    if isinstance(v, int):
        return b"i%de" % v
    if isinstance(v, str):
        v = v.encode("utf8")
    if isinstance(v, (bytes, bytearray)):
        return b"%d:" % len(v) + bytes(v)
    if isinstance(v, (list, tuple)):
        return b"l" + b"".join(encode(x) for x in v) + b"e"
    if isinstance(v, dict):
        items = sorted((k.encode("utf8") if isinstance(k, str) else bytes(k), x)
                       for k, x in v.items())
        return b"d" + b"".join(encode(k) + encode(x) for k, x in items) + b"e"
    raise TypeError(type(v))


def encode_ordered(v):
    """Encoder that keeps dictionary insertion order (valid bencoding, not necessarily
    canonical) - for foreign metafiles whose keys are not sorted."""
    if isinstance(v, bool):
        raise TypeError("bool")
    if isinstance(v, int):
        return b"i%de" % v
    if isinstance(v, str):
        v = v.encode("utf8")
    if isinstance(v, (bytes, bytearray)):
        return b"%d:" % len(v) + bytes(v)
    if isinstance(v, (list, tuple)):
        return b"l" + b"".join(encode_ordered(x) for x in v) + b"e"
    if isinstance(v, dict):
        return b"d" + b"".join(encode_ordered(k) + encode_ordered(x) for k, x in v.items()) + b"e"
    raise TypeError(type(v))


# ----------------------------------------------------------------------------- metafiles

def ref_metafile(name, files, pl, version, single=False, trailing_pad=False,
                 with_length=False, extra=None, info_extra=None, block=BLOCK, attrs=None, pad_to=None):
    """Reference encoder: files = list of (path components tuple, bytes) in the order the
    v1 list shall have (callers pass them sorted as BEP 52 requires for hybrids).
    version 1 | 2 | 3. Returns the metafile as a python dict (use encode())."""
    info = {"name": name, "piece length": pl}
    meta = {"info": info}
    if version in (1, 3):
        if single:
            info["length"] = len(files[0][1])
            info["pieces"] = v1_pieces(files[0][1], pl)
        else:
            entries = []
            stream = b""
            for idx, (comps, data) in enumerate(files):
                entries.append({"length": len(data), "path": list(comps)})
                if attrs and attrs.get(comps):
                    entries[-1]["attr"] = attrs[comps]      # BEP 47: x executable, h hidden, l link
                stream += data
                g = gap(pl, len(data))
                last = idx == len(files) - 1
                if version == 3 and g and (not last or trailing_pad):
                    entries.append({"attr": "p", "length": g, "path": [".pad", str(g)]})
                    stream += bytes(g)
                elif version == 1 and pad_to and not last and gap(pad_to, len(stream)):
                    # a v1 encoder that aligns files to `pad_to` bytes, which need not be the piece
                    # length (BEP 47 padding entries that end inside a piece)
                    g2 = gap(pad_to, len(stream))
                    entries.append({"attr": "p", "length": g2, "path": [".pad", str(g2)]})
                    stream += bytes(g2)
            info["files"] = entries
            info["pieces"] = v1_pieces(stream, pl)
    if version in (2, 3):
        info["meta version"] = 2
        layers = {}
        tree = {}
        for comps, data in files:
            node = tree
            comps = (name,) if single else comps
            for c in comps[:-1]:
                node = node.setdefault(c, {})
            if data:
                root, layer = v2_file(data, pl, block)
                node[comps[-1]] = {"": {"length": len(data), "pieces root": root}}
                if layer is not None:
                    layers[root] = layer
            else:
                node[comps[-1]] = {"": {"length": 0}}
        info["file tree"] = tree
        meta["piece layers"] = layers
        if single and with_length:
            info["length"] = len(files[0][1])
    if info_extra:
        info.update(info_extra)
    if extra:
        meta.update(extra)
    return meta


def described_files(meta):
    """[(path components, length, root|None)] of a decoded (strict) metafile, v2 view if
    present else v1 view; pads excluded; and the v1 entry list with pads for the v1 view."""
    info = meta[b"info"]
    name = info[b"name"]
    v1 = None
    if b"pieces" in info:
        if b"files" in info:
            v1 = [(tuple(e[b"path"]), e[b"length"], e.get(b"attr") == b"p")
                  for e in info[b"files"]]
        else:
            v1 = None
    v2 = None
    if b"file tree" in info:
        v2 = []

        def walk(tree, pre):
            for k, v in tree.items():
                if b"" in v:
                    v2.append((pre + (k,), v[b""][b"length"], v[b""].get(b"pieces root")))
                else:
                    walk(v, pre + (k,))
        walk(info[b"file tree"], ())
    return name, v1, v2


def is_single(meta):
    info = meta[b"info"]
    if b"length" in info:
        return True
    if b"files" in info:
        return False
    tree = info.get(b"file tree", {})
    return list(tree) == [info[b"name"]] and b"" in tree[info[b"name"]]


def ref_verify(meta, read, block=BLOCK):
    """Reference piece-by-piece verification. meta: strict-decoded metafile; read(comps)
    returns on-disk bytes of the file at those path components below the payload root
    (() for a single file) or None if absent.  Absent data reads as zeros.
    Returns list of (ok, size) per piece, v1 stream for v1, per-file pieces otherwise."""
    info = meta[b"info"]
    pl = info[b"piece length"]
    out = []
    if b"meta version" not in info:
        if b"files" in info:
            entries = [(tuple(e[b"path"]), e[b"length"], e.get(b"attr") == b"p")
                       for e in info[b"files"]]
        else:
            entries = [((), info[b"length"], False)]
        stream = b""
        for comps, length, pad in entries:
            data = b"" if pad else (read(comps) or b"")
            stream += (data + bytes(length))[:length]
        pieces = info[b"pieces"]
        for i in range(0, len(stream), pl):
            chunk = stream[i:i + pl]
            rec = pieces[(i // pl) * 20:(i // pl) * 20 + 20]
            out.append((sha1(chunk) == rec, len(chunk)))
        return out
    layers = meta.get(b"piece layers", {})
    single = is_single(meta)
    files = []

    def walk(tree, pre):
        for k, v in tree.items():
            if b"" in v:
                files.append((pre + (k,), v[b""]))
            else:
                walk(v, pre + (k,))
    walk(info[b"file tree"], ())
    bpp = pl // block
    for comps, leaf in files:
        length = leaf[b"length"]
        if not length:
            continue
        data = read(() if single else comps) or b""
        data = (data + bytes(length))[:length]
        root = leaf[b"pieces root"]
        if length <= pl:
            got, _ = v2_file(data, pl, block)
            out.append((got == root, length))
            continue
        rec = layers.get(root, b"")
        leaves = [sha256(data[i:i + block]) for i in range(0, len(data), block)]
        npieces = -(-len(leaves) // bpp)
        leaves += [bytes(32)] * (npieces * bpp - len(leaves))
        for p in range(npieces):
            h = merkle(leaves[p * bpp:(p + 1) * bpp])
            size = min(pl, length - p * pl)
            out.append((h == rec[p * 32:(p + 1) * 32], size))
    return out


def ref_percent(results):
    total = sum(s for _, s in results)
    good = sum(s for ok, s in results if ok)
    return good, total

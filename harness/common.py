"""
Shared plumbing of every check: locating the repository under test, building the Lean
project, talking to the compiled model driver, sandboxes, evidence, replays, verdicts.

Exit codes of a check: 0 = property held on everything explored; 1 = VIOLATION reported;
2 = the machinery itself is broken (build, audit, spec cross-check, time budget) - never
caused by an edit to the repository under test.
"""
import contextlib
import hashlib
import io
import json
import os
import random
import re
import shutil
import subprocess
import sys
import tempfile
import time

VERIF = os.path.dirname(os.path.dirname(os.path.abspath(__file__)))
REPO = os.environ.get("VERIF_REPO", "/repo")
LEAN = os.path.join(VERIF, "lean")
DRIVER = os.path.join(LEAN, ".lake", "build", "bin", "tvdriver")
BUILD = os.path.join(VERIF, "build")
AUDIT = os.path.join(BUILD, "audit.json")
STD_AXIOMS = {"propext", "Classical.choice", "Quot.sound"}
GUARD = "TORRENTFILE_VERIF"


class MachineryError(Exception):
    """The verification machinery is broken (exit 2)."""


def use_repo():
    """Make `import torrentfile` resolve to the working tree under test."""
    if sys.path[0] != REPO:
        sys.path.insert(0, REPO)
    os.environ.setdefault("TORRENTFILE_DEBUG", "OFF")
    os.environ[GUARD] = "1"
    import torrentfile  # noqa
    got = os.path.dirname(os.path.dirname(os.path.abspath(torrentfile.__file__)))
    if os.path.realpath(got) != os.path.realpath(REPO):
        raise MachineryError(f"torrentfile imported from {got}, expected {REPO}")
    return torrentfile


# --------------------------------------------------------------------------- build + audit

FORBIDDEN = [(r"(?<![\w.'])sorry(?![\w'])", "sorry"), (r"(?<![\w.'])admit(?![\w'])", "admit"),
             (r"native_decide", "native_decide"), (r"bv_decide", "bv_decide"),
             (r"implemented_by", "implemented_by"), (r"(?<![\w.'])unsafe\s", "unsafe"),
             (r"maxHeartbeats\s+0(?!\d)", "maxHeartbeats 0"), (r"^\s*axiom\s", "axiom"),
             (r"(?<![\w.'])partial\s+def", "partial def")]


def _strip_comments(text):
    out, i, depth = [], 0, 0
    while i < len(text):
        if text.startswith("/-", i):
            depth += 1
            i += 2
        elif text.startswith("-/", i) and depth:
            depth -= 1
            i += 2
        elif depth:
            i += 1
        elif text.startswith("--", i):
            j = text.find("\n", i)
            i = len(text) if j < 0 else j
        else:
            out.append(text[i])
            i += 1
    return "".join(out)


def grep_forbidden():
    hits = []
    walk = list(os.walk(os.path.join(LEAN, "TorrentVerif"))) + list(os.walk(os.path.join(LEAN, "Gen")))
    for base, _, files in walk:
        for fn in files:
            if not fn.endswith(".lean"):
                continue
            path = os.path.join(base, fn)
            text = _strip_comments(open(path, encoding="utf8").read())
            for n, line in enumerate(text.splitlines(), 1):
                for pat, word in FORBIDDEN:
                    if re.search(pat, line):
                        hits.append(f"{path}:{n}: {word}")
    return hits


def _sources_mtime():
    latest = 0
    for base, dirs, files in os.walk(LEAN):
        if ".lake" in dirs:
            dirs.remove(".lake")
        if base == LEAN and "Gen" in dirs:
            dirs.remove("Gen")          # built separately by ensure_gen
        for fn in files:
            if fn.endswith((".lean", ".toml")):
                latest = max(latest, os.path.getmtime(os.path.join(base, fn)))
    return latest


def ensure_built(force=False):
    """Build model, proofs and driver; (re)generate the axiom audit. Returns audit dict."""
    os.makedirs(BUILD, exist_ok=True)
    stamp = os.path.join(BUILD, "built.stamp")
    fresh = (not force and os.path.exists(stamp) and os.path.exists(DRIVER)
             and os.path.exists(AUDIT)
             and os.path.getmtime(stamp) >= _sources_mtime())
    if not fresh:
        lock = open(os.path.join(BUILD, "build.lock"), "w")
        import fcntl
        fcntl.flock(lock, fcntl.LOCK_EX)
        try:
            fresh = (not force and os.path.exists(stamp) and os.path.exists(DRIVER)
                     and os.path.exists(AUDIT)
                     and os.path.getmtime(stamp) >= _sources_mtime())
            if not fresh:
                t0 = time.time()
                proc = subprocess.run(["lake", "build", "TorrentVerif", "tvdriver"],
                                      cwd=LEAN, capture_output=True, text=True)
                if proc.returncode != 0:
                    raise MachineryError("lake build failed:\n" + proc.stdout[-4000:]
                                         + proc.stderr[-2000:])
                proc = subprocess.run(["lake", "env", "lean", "Audit.lean"], cwd=LEAN,
                                      capture_output=True, text=True)
                if proc.returncode != 0:
                    raise MachineryError("audit failed:\n" + proc.stdout[-3000:]
                                         + proc.stderr[-2000:])
                lines = [l for l in proc.stdout.splitlines() if l.startswith("AUDIT ")]
                audit = {}
                for line in lines:
                    _, name, kind, axioms = (line.split(" ", 3) + [""])[:4]
                    audit[name] = {"kind": kind,
                                   "axioms": [a for a in axioms.split(",") if a]}
                with open(AUDIT + ".tmp", "w") as fd:
                    json.dump({"built_s": round(time.time() - t0, 1), "decls": audit}, fd,
                              indent=1)
                os.replace(AUDIT + ".tmp", AUDIT)
                with open(stamp, "w") as fd:
                    fd.write(str(time.time()))
        finally:
            fcntl.flock(lock, fcntl.LOCK_UN)
            lock.close()
    hits = grep_forbidden()
    if hits:
        raise MachineryError("forbidden constructs in Lean sources: " + "; ".join(hits[:5]))
    return json.load(open(AUDIT))["decls"]


GEN_AUDIT = """import Lean
{imports}
open Lean Elab Command
def auditKind (c : ConstantInfo) : String :=
  match c with
  | .thmInfo _ => "theorem"
  | .defnInfo _ => "def"
  | .axiomInfo _ => "axiom"
  | .opaqueInfo _ => "opaque"
  | _ => "other"
elab "#audit_gen" : command => do
  let env ← getEnv
  let mut names : Array Name := #[]
  for (n, _) in env.constants.map₁.toList do
    if (`Gen.Lifted).isPrefixOf n || (`Gen.Tie).isPrefixOf n then
      if !n.isInternalDetail then names := names.push n
  for n in names.qsort (fun a b => a.toString < b.toString) do
    let some c := env.find? n | continue
    let axs ← liftCoreM (collectAxioms n)
    let axs := axs.qsort (fun a b => a.toString < b.toString)
    IO.println s!"AUDIT {{n}} {{auditKind c}} {{",".intercalate (axs.toList.map toString)}}"
#audit_gen
"""


def ensure_gen():
    """Translate the pure helper functions of /repo's *current* source to Lean
    (harness/pytrans.py), build the hand-written tie theorems against the result and audit
    them.  Returns {function: {ok, stage, detail, digest, theorems}}; never raises for a
    refused translation or a tie that no longer checks (that is a broken correspondence, to
    be judged by the caller), only for broken machinery."""
    from harness import pytrans
    ensure_built()
    gen_dir = os.path.join(LEAN, "Gen")
    src_dir = os.path.join(gen_dir, "Src")
    os.makedirs(src_dir, exist_ok=True)
    texts, status = {}, {}
    for fn in pytrans.TARGETS:
        try:
            texts[fn], digest = pytrans.translate_one(fn, REPO)
            status[fn] = {"ok": True, "stage": "", "detail": "", "digest": digest,
                          "theorems": []}
        except (pytrans.TranslationError, SyntaxError, OSError) as exc:
            status[fn] = {"ok": False, "stage": "translate", "detail": str(exc)[:300],
                          "digest": "", "theorems": []}
    h = hashlib.sha256()
    for fn in sorted(pytrans.TARGETS):
        h.update(texts.get(fn, "<refused>").encode())
    for base, _, files in os.walk(gen_dir):
        if os.path.basename(base) == "Src":
            continue
        for name in sorted(files):
            if name.endswith(".lean"):
                h.update(open(os.path.join(base, name), "rb").read())
    h.update(str(os.path.getmtime(os.path.join(BUILD, "built.stamp"))).encode())
    key = h.hexdigest()
    cache = os.path.join(BUILD, "gen_status.json")
    try:
        old = json.load(open(cache))
        if old.get("key") == key:
            return old["status"]
    except (OSError, ValueError):
        pass
    import fcntl
    lock = open(os.path.join(BUILD, "build.lock"), "w")
    fcntl.flock(lock, fcntl.LOCK_EX)
    try:
        for fn in pytrans.TARGETS:
            path = os.path.join(src_dir, fn + ".lean")
            if fn in texts:
                if not os.path.exists(path) or open(path, encoding="utf8").read() != texts[fn]:
                    with open(path, "w", encoding="utf8") as fd:
                        fd.write(texts[fn])
            elif os.path.exists(path):
                os.remove(path)
        good = []
        for fn in pytrans.TARGETS:
            if not status[fn]["ok"]:
                continue
            proc = subprocess.run(["lake", "build", f"Gen.Tie.{fn}"], cwd=LEAN,
                                  capture_output=True, text=True)
            if proc.returncode != 0:
                errs = [l for l in (proc.stdout + proc.stderr).splitlines()
                        if l.startswith("error:") and "Lean exited" not in l
                        and "build failed" not in l]
                where = ""
                m = re.search(r"Gen/Tie/[\w.]+:(\d+):", "\n".join(errs))
                if m:      # name the enclosing theorem
                    line_no = int(m.group(1))
                    lines = open(os.path.join(gen_dir, "Tie", fn + ".lean"),
                                 encoding="utf8").read().splitlines()
                    for i in range(min(line_no, len(lines)) - 1, -1, -1):
                        mm = re.match(r"(theorem|example|def)\s*([\w.']*)", lines[i])
                        if mm:
                            where = (mm.group(2) or "example") + ": "
                            break
                stage = "translate" if any("Gen/Src/" in e for e in errs) else "tie"
                status[fn].update(ok=False, stage=stage,
                                  detail=(where + " | ".join(errs))[:500])
            else:
                good.append(fn)
        if good:
            audit_src = os.path.join(BUILD, "GenAudit.lean")
            with open(audit_src, "w", encoding="utf8") as fd:
                fd.write(GEN_AUDIT.format(
                    imports="\n".join(f"import Gen.Tie.{fn}" for fn in good)))
            proc = subprocess.run(["lake", "env", "lean", audit_src], cwd=LEAN,
                                  capture_output=True, text=True)
            if proc.returncode != 0:
                raise MachineryError("audit of the translated tie failed: "
                                     + (proc.stdout + proc.stderr)[-800:])
            decls = {}
            for line in proc.stdout.splitlines():
                if line.startswith("AUDIT "):
                    _, name, kind, axioms = (line.split(" ", 3) + [""])[:4]
                    decls[name] = (kind, [a for a in axioms.split(",") if a])
            for name, (kind, axioms) in decls.items():
                if kind == "theorem" and not set(axioms) <= STD_AXIOMS:
                    raise MachineryError(f"non-standard axioms in {name}: {axioms}")
            for fn in good:
                text = open(os.path.join(gen_dir, "Tie", fn + ".lean"), encoding="utf8").read()
                mine = [n for n in re.findall(r"^theorem\s+([\w.']+)", text, re.M)]
                status[fn]["theorems"] = sorted(
                    n for n, (kind, _) in decls.items()
                    if kind == "theorem" and n.split(".")[-1] in mine)
                if not status[fn]["theorems"]:
                    raise MachineryError(f"no audited tie theorems for {fn}")
        with open(cache + ".tmp", "w") as fd:
            json.dump({"key": key, "status": status}, fd, indent=1)
        os.replace(cache + ".tmp", cache)
    finally:
        fcntl.flock(lock, fcntl.LOCK_UN)
        lock.close()
    return status


def _probe_translated(fn):
    """Direct differential probe of one helper against what its `Impl.*` model computes (the
    closed forms are theorems: `np2_eq`, `gplLoop_spec`, `normalize_accepts_iff`, `merkleIter`
    is pairwise reduction).  Returns a differing input or None."""
    use_repo()
    import importlib
    from harness import pytrans
    rel = pytrans.TARGETS[fn][0]
    mod = importlib.import_module(rel[:-3].replace("/", "."))
    f = getattr(mod, fn)
    rng = random.Random(20260927)
    if fn == "next_power_2":
        dom = list(range(0, 5000)) + [2 ** k + d for k in range(12, 70) for d in (-1, 0, 1)] \
            + [rng.randrange(1, 2 ** 40) for _ in range(3000)]
        for n in dom:
            want = 1 if n <= 1 else 1 << (n - 1).bit_length()
            if f(n) != want:
                return {"value": n, "got": f(n), "model": want}
    elif fn == "get_piece_length":
        dom = list(range(0, 2000)) + [1000 * 2 ** k + d for k in range(10, 30) for d in (-1, 0, 1)] \
            + [2 ** k + d for k in range(0, 80) for d in (-1, 0, 1)] \
            + [rng.randrange(0, 2 ** 45) for _ in range(5000)]
        for n in dom:
            k = 14
            while n > 1000 * 2 ** k and k < 24:
                k += 1
            if f(n) != 2 ** k:
                return {"size": n, "got": f(n), "model": 2 ** k}
    elif fn == "normalize_piece_length":
        dom = list(range(-40, 70000)) + [2 ** k + d for k in range(0, 5000, 7) for d in (-1, 0, 1)] \
            + [-(2 ** k) for k in range(0, 40)] + [rng.randrange(0, 2 ** 64) for _ in range(3000)]
        for n in dom:
            if 13 < n < 26:
                want = 2 ** n
            elif n >= 16384 and n & (n - 1) == 0:
                want = n
            else:
                want = None
            try:
                got = f(n)
            except Exception as exc:       # noqa: BLE001
                got = None if type(exc).__name__ == "PieceLengthValueError" else repr(exc)
            if got != want:
                return {"piece_length": n if n < 2 ** 70 else f"2**{n.bit_length() - 1}+…",
                        "got": got, "model": want}
    elif fn == "safe_join":
        import posixpath
        comps = ["a", "b", "..", ".", "", "d", "tmp", "x y", "..x", "...", "d2"]
        dests = ["/tmp/d", "/d", "/tmp/d/e", "/", "/a/b"]
        for _ in range(6000):
            dest = rng.choice(dests)
            rel = rng.choice(["", "/", "//", "///"]) * (rng.random() < 0.2) + \
                rng.choice(["/", "//"]).join(rng.choice(comps) for _ in range(rng.randrange(0, 6)))
            try:
                got = f(dest, rel)
            except Exception as exc:        # noqa: BLE001
                got = "raised " + repr(exc)[:80]
            # independent reading: resolve lexically, demand a proper extension of dest
            full = posixpath.normpath(posixpath.join(dest, rel))
            if full.startswith("//"):
                full = full[1:]
            base = dest.rstrip("/") or "/"
            inside = full != base and (full.startswith(base + "/") if base != "/" else full.startswith("/") and full != "/")
            want = full if inside else None
            if got != want:
                return {"dest": dest, "relpath": rel, "got": got, "model": want}
    elif fn == "merkle_root":
        def ref(l):
            if not l:
                return l
            while len(l) > 1:
                l = [hashlib.sha256(l[i] + l[i + 1]).digest() for i in range(0, len(l) - 1, 2)]
            return l[0]
        for n in list(range(0, 70)) + [127, 128, 129, 255, 256, 257, 1024, 2048, 4096, 5000]:
            blocks = [hashlib.sha256(bytes([i % 251, n % 251])).digest() for i in range(n)]
            if f(list(blocks)) != ref(list(blocks)):
                return {"blocks": n}
    return None


def translated_tie(run, functions):
    """Gate of a check on the translated functions it leans on.  Records the tie in the
    evidence.  A tie theorem that no longer checks against the translation of the current
    source is a broken correspondence (a direct probe, the caller's sampled comparison and the
    widened search then look for a failing input; without one the verdict is
    `no-failing-input-found`).  A *refused* translation (the source left the fragment the
    translator understands) says nothing about behaviour: the function is then tied by
    sampling only — the direct probe below plus the check's own comparison — and the evidence
    says so."""
    status = ensure_gen()
    out = {}
    for fn in functions:
        st = status[fn]
        out[fn] = {"source_digest": st["digest"], "tie_checked": st["ok"],
                   "theorems": [t.split("Gen.")[-1] for t in st["theorems"]]}
        if st["ok"]:
            continue
        out[fn]["broken"] = f"{st['stage']}: {st['detail']}"
        try:
            diff = _probe_translated(fn)
        except Exception as exc:        # noqa: BLE001
            diff = {"probe_raised": repr(exc)[:200]}
        out[fn]["direct_probe"] = diff or "no difference from the model on the probe domain"
        if st["stage"] == "tie" or diff:
            run.fail("impl-vs-model", {"translated_function": fn, "input": diff},
                     {"correspondence": f"translated tie of {fn} "
                                        f"(lean/Gen/Tie/{fn}.lean) — {st['stage']}: "
                                        f"{st['detail']}"})
        else:
            out[fn]["fallback"] = "translation refused; tied by the sampled correspondence only"
    run.extra["translated_from_source"] = out
    return status


def kernel_recheck():
    """Thorough tier: replay every compiled module of the project through `leanchecker`, the
    toolchain's independent re-checker of .olean files. Returns a short description."""
    ensure_built()
    mods = ["TorrentVerif"]
    root = os.path.join(LEAN, "TorrentVerif")
    for base, _, files in os.walk(root):
        for fn in sorted(files):
            if fn.endswith(".lean"):
                rel = os.path.relpath(os.path.join(base, fn), LEAN)[:-5]
                mods.append(rel.replace(os.sep, "."))
    try:
        gen = ensure_gen()
        mods += ["Gen.Prelude", "Gen.Lemmas"]
        for fn, st in gen.items():
            if st["ok"]:
                mods += [f"Gen.Src.{fn}", f"Gen.Tie.{fn}"]
    except MachineryError:
        raise
    proc = subprocess.run(["lake", "env", "leanchecker"] + mods, cwd=LEAN, capture_output=True,
                          text=True)
    if proc.returncode != 0:
        raise MachineryError("leanchecker rejected the compiled proofs: "
                             + (proc.stdout + proc.stderr)[-600:])
    return f"leanchecker replayed {len(mods)} modules: ok"


def proof_status(pid):
    """(obligations, discharged, theorem names) for the property theorems of `pid`."""
    decls = ensure_built()
    prefix = f"TorrentVerif.Props.{pid}."
    thms = {n: d for n, d in decls.items() if n.startswith(prefix) and d["kind"] == "theorem"}
    if not thms:
        if os.environ.get("VERIF_DEV"):
            return 0, 0, []
        raise MachineryError(f"no theorems found for {pid} in audit")
    bad = {n: d["axioms"] for n, d in thms.items() if not set(d["axioms"]) <= STD_AXIOMS}
    if bad:
        raise MachineryError(f"non-standard axioms: {bad}")
    return len(thms), len(thms) - len(bad), sorted(n[len(prefix):] for n in thms)


# --------------------------------------------------------------------------- driver

class Driver:
    """Batch interface to the compiled Lean model driver."""

    def __init__(self):
        ensure_built()
        self.requests = []
        self.slots = []

    def ask(self, line, slot=None):
        self.requests.append(line)
        self.slots.append(slot)
        return len(self.requests) - 1

    def run(self):
        if not self.requests:
            return []
        proc = subprocess.run([DRIVER], input="\n".join(self.requests) + "\n",
                              capture_output=True, text=True)
        out = proc.stdout.splitlines()
        if proc.returncode != 0 or len(out) != len(self.requests):
            raise MachineryError(f"driver failed rc={proc.returncode} "
                                 f"{len(out)}/{len(self.requests)}: {proc.stderr[-500:]}")
        res = list(zip(self.slots, self.requests, out))
        self.requests, self.slots = [], []
        return res


def drive(lines):
    """Run request lines through the driver, return the answer lines."""
    drv = Driver()
    for line in lines:
        drv.ask(line)
    return [o for _, _, o in drv.run()]


# --------------------------------------------------------------------------- blobs

_PAT = {}


def pattern(seed):
    if seed not in _PAT:
        _PAT[seed] = b"".join(hashlib.sha256(f"{seed}:{i}".encode()).digest()
                              for i in range(32))[:1021]
    return _PAT[seed]


class Blob:
    """File contents as a descriptor both sides can expand."""

    hardlink_of = None
    symlink_of = None

    def __init__(self, kind, a=0, b=0, raw=b"", mods=()):
        self.kind, self.a, self.b, self.raw, self.mods = kind, a, b, raw, tuple(mods)

    @staticmethod
    def rand(seed, n):
        return Blob("r", seed, n)

    @staticmethod
    def zero(n):
        return Blob("z", n)

    @staticmethod
    def hexb(raw):
        return Blob("h", raw=bytes(raw))

    def trunc(self, n):
        return Blob(self.kind, self.a, self.b, self.raw, self.mods + (("t", n),))

    def flip(self, off):
        return Blob(self.kind, self.a, self.b, self.raw, self.mods + (("x", off),))

    def bytes(self):
        if self.kind == "r":
            p = pattern(self.a)
            data = (p * (self.b // 1021 + 1))[:self.b]
        elif self.kind == "z":
            data = bytes(self.a)
        else:
            data = self.raw
        for m, v in self.mods:
            if m == "t":
                data = data[:v]
            elif v < len(data):
                arr = bytearray(data)
                arr[v] ^= 0xFF
                data = bytes(arr)
        return data

    def __len__(self):
        return len(self.bytes())

    def token(self):
        if self.kind == "r":
            base = f"r{self.a}.{self.b}"
        elif self.kind == "z":
            base = f"z{self.a}"
        else:
            base = "h" + (self.raw.hex() or "-")
        return base + "".join(f",{m}{v}" for m, v in self.mods)

    def __repr__(self):
        return self.token() if len(self.token()) < 60 else self.token()[:57] + "..."


def hx(b):
    return bytes(b).hex() or "-"


def unhx(s):
    return b"" if s == "-" else bytes.fromhex(s)


# --------------------------------------------------------------------------- sandboxes

def scratch_root():
    for cand in ("/dev/shm", tempfile.gettempdir()):
        if os.path.isdir(cand) and os.access(cand, os.W_OK):
            return cand
    return tempfile.gettempdir()


@contextlib.contextmanager
def sandbox(prefix="tv"):
    """A scratch directory. The SAME path is handed out again for the next case of this
    process (emptied in between), on purpose: state that the implementation keeps per path
    (caches keyed by path, size or whole-second mtime) then shows up as a difference between
    consecutive cases instead of hiding behind ever-fresh directory names."""
    path = os.path.join(scratch_root(), f"{prefix}-{os.getpid()}")
    shutil.rmtree(path, ignore_errors=True)
    os.makedirs(path)
    try:
        yield path
    finally:
        shutil.rmtree(path, ignore_errors=True)


def write_tree(root, files):
    """files: list of (relative path with '/', bytes). Creates root."""
    os.makedirs(root, exist_ok=True)
    for rel, data in files:
        path = os.path.join(root, *rel.split("/"))
        os.makedirs(os.path.dirname(path), exist_ok=True)
        with open(path, "wb") as fd:
            fd.write(data)


@contextlib.contextmanager
def quiet():
    """Silence torrentfile's progress bars and prints."""
    out, err = sys.stdout, sys.stderr
    sys.stdout, sys.stderr = io.StringIO(), io.StringIO()
    try:
        yield
    finally:
        sys.stdout, sys.stderr = out, err


def snapshot(root):
    """name -> ('d', mode) | ('f', size, sha256, mode) | ('l', target) for everything under
    root (symbolic links are recorded as links, never followed)."""
    snap = {}
    for base, dirs, files in os.walk(root):
        for d in dirs:
            p = os.path.join(base, d)
            if os.path.islink(p):
                snap[os.path.relpath(p, root)] = ("l", os.readlink(p))
                continue
            snap[os.path.relpath(p, root)] = ("d", oct(os.stat(p).st_mode & 0o7777))
        for f in files:
            p = os.path.join(base, f)
            if os.path.islink(p):
                snap[os.path.relpath(p, root)] = ("l", os.readlink(p))
                continue
            with open(p, "rb") as fd:
                data = fd.read()
            snap[os.path.relpath(p, root)] = ("f", len(data),
                                              hashlib.sha256(data).hexdigest(),
                                              oct(os.stat(p).st_mode & 0o7777))
    return snap


# --------------------------------------------------------------------------- verdicts

class Failure:
    def __init__(self, kind, case, detail):
        self.kind = kind      # 'impl-vs-spec' | 'impl-vs-model' | 'spec-vs-ref'
        self.case = case      # JSON-able description, enough to replay
        self.detail = detail


CURRENT_RUN = [None]


class Run:
    """Bookkeeping of one check run: cases, coverage, failures, evidence, verdict."""

    def __init__(self, pid, tier, seed, rule):
        self.pid, self.tier, self.seed, self.rule = pid, tier, seed, rule
        self.t0 = time.time()
        self.evaluations = 0
        self.keys = set()
        self.nontrivial_keys = set()
        self.samples = []
        self.hist = {}
        self.failures = []
        self.model_checked = 0
        self.extra = {}
        self.rng = random.Random(seed)
        self.replaying = False
        self.shrinker = None
        CURRENT_RUN[0] = self

    def case(self, key, nontrivial, sample=None, classes=()):
        self.evaluations += 1
        key = json.dumps(key, sort_keys=True, default=str)
        self.keys.add(key)
        if nontrivial:
            self.nontrivial_keys.add(key)
        for c in classes:
            self.hist[c] = self.hist.get(c, 0) + 1
        if sample is not None and len(self.samples) < 6 and (nontrivial or not self.samples):
            self.samples.append(sample)

    def fail(self, kind, case, detail):
        self.failures.append(Failure(kind, case, detail))

    def _widen(self):
        """The model no longer corresponds to the implementation but no input was found on
        which the property itself fails: search further (other seeds, then the thorough
        generator) for at most about five minutes before giving up."""
        if os.environ.get("VERIF_NO_WIDEN") or self.replaying:
            return None
        t0 = time.time()
        plan = [("quick", self.seed + 1), ("quick", self.seed + 2), ("quick", self.seed + 3),
                ("thorough", self.seed + 4)]
        for tier, seed in plan:
            if time.time() - t0 > 120:
                break
            env = dict(os.environ, VERIF_NO_WIDEN="1", VERIF_SEED=str(seed), VERIF_TIER=tier,
                       VERIF_EVIDENCE_SUFFIX=".widen")
            try:
                proc = subprocess.run([os.path.join(VERIF, "check"), self.pid, "--tier", tier],
                                      capture_output=True, text=True, env=env,
                                      timeout=max(30, 200 - (time.time() - t0)))
            except subprocess.TimeoutExpired:
                break
            for line in proc.stdout.splitlines():
                if line.startswith("VIOLATION") and "no-failing-input-found" not in line:
                    return line
        return None

    def finish(self, known=None):
        """Classify failures, write evidence, print verdict lines, return exit code."""
        from harness import kf
        wall = time.time() - self.t0
        machinery = [f for f in self.failures if f.kind == "spec-vs-ref"]
        if machinery:
            print(f"MACHINERY: Lean Spec and Python reference disagree: "
                  f"{json.dumps(machinery[0].case, default=str)[:400]} {machinery[0].detail}")
            return 2
        real = [f for f in self.failures if f.kind == "impl-vs-spec"]
        model = [f for f in self.failures if f.kind == "impl-vs-model"]
        code = 0
        lines = []
        unlisted = []
        seen_known = {}
        for f in real:
            entry = kf.match(self.pid, f.case)
            if entry:
                seen_known.setdefault(entry["id"], entry)
            else:
                unlisted.append(f)
        for entry in seen_known.values():
            lines.append(f"KNOWN-FINDING: property={self.pid} {entry['text']}")
        os.makedirs(os.path.join(VERIF, "replays"), exist_ok=True)
        if unlisted:
            f = unlisted[0]
            if self.shrinker is not None and isinstance(f.case, dict) and f.case.get("files") \
                    and not self.replaying:
                try:
                    small = shrink_case(f.case, self.shrinker)
                    if small != f.case:
                        f.detail = dict(f.detail, shrunk_from=f.case) if isinstance(f.detail, dict) else f.detail
                        f.case = small
                except Exception:
                    pass
            path = os.path.join("replays", f"{self.pid}-{self.seed}.json")
            with open(os.path.join(VERIF, path), "w") as fd:
                json.dump({"property": self.pid, "kind": f.kind, "seed": self.seed,
                           "tier": self.tier, "case": f.case, "detail": f.detail,
                           "others": len(unlisted) - 1}, fd, indent=1, default=str)
            lines.append(f"VIOLATION property={self.pid} replay={path}")
            code = 1
        elif model and (widened := self._widen()) is not None:
            lines.append(widened)
            code = 1
        elif model:
            f = model[0]
            path = os.path.join("replays", f"{self.pid}-{self.seed}-model.json")
            with open(os.path.join(VERIF, path), "w") as fd:
                json.dump({"property": self.pid, "kind": f.kind, "seed": self.seed,
                           "tier": self.tier, "case": f.case, "detail": f.detail,
                           "broken": f.detail.get("correspondence", "Impl model")
                           if isinstance(f.detail, dict) else str(f.detail),
                           "note": "implementation differs from the Lean implementation "
                                   "model on this case; no input on which the property "
                                   "itself fails was found"}, fd, indent=1, default=str)
            lines.append(f"VIOLATION property={self.pid} replay={path} "
                         f"no-failing-input-found")
            code = 1
        obligations, discharged, names = proof_status(self.pid)
        try:
            note = json.load(open(os.path.join(VERIF, "claims.json")))[self.pid]["note"]
        except Exception:
            note = ""
        tf = self.extra.get("translated_from_source") or {}
        tie_names = []
        for fn, v in tf.items():
            if v["tie_checked"]:
                tie_names += [f"Gen.{t}" for t in v["theorems"]]
        obligations += len(tie_names)
        discharged += len(tie_names)
        names = names + tie_names
        coverage = {
            "obligations": obligations,
            "discharged": discharged,
            "checker_cmd": "cd lean && lake build TorrentVerif && lake env lean Audit.lean"
                           + ("  # plus, after harness/pytrans.py wrote lean/Gen/Src: "
                              "lake build Gen" if tf else ""),
            "trusted_base": [
                "Lean 4.33 kernel; axioms of every property theorem within "
                "{propext, Classical.choice, Quot.sound} (audited this run)",
                "hand-written Impl.* models tied to the Python code by the sampled "
                "correspondence reported below",
                "SHA-1/SHA-256 uninterpreted in all theorems",
            ] + (["harness/pytrans.py (Python->Lean translator, ~350 lines) and lean/Gen/Prelude.lean "
                  "(reading of int &, <<, **, int/int > int, the pairing idiom) for the functions "
                  "under translated_from_source: their tie to Impl.* is a theorem re-checked "
                  "against the current source on this run, not a sample"] if tie_names else [])
            + ([note] if note else []),
            "theorems": names,
            "evaluations": self.evaluations,
            "distinct_nontrivial": len(self.nontrivial_keys),
            "distinct": len(self.keys),
            "rule": self.rule,
            "samples": self.samples[:6] or ["(none)"],
            "distribution": dict(sorted(self.hist.items())),
            "model_evaluations": self.model_checked,
        }
        if self.tier == "thorough":
            coverage["kernel_recheck"] = kernel_recheck()
        coverage.update(self.extra)
        evidence = {
            "property_id": self.pid, "tier": self.tier, "seed": self.seed,
            "level": "proof", "coverage": coverage,
            "assumptions": ASSUMPTIONS.get(self.pid, []) + COMMON_ASSUMPTIONS,
            "wall_s": round(wall, 2),
            "violations": len(unlisted) + (1 if (model and not unlisted) else 0),
            "known_findings_seen": sorted(seen_known),
        }
        os.makedirs(os.path.join(VERIF, "evidence"), exist_ok=True)
        suffix = os.environ.get("VERIF_EVIDENCE_SUFFIX", "")
        with open(os.path.join(VERIF, "evidence", f"{self.pid}.json{suffix}"), "w") as fd:
            json.dump(evidence, fd, indent=1, default=str)
        for line in lines:
            print(line)
        print(f"{self.pid} {self.tier} seed={self.seed}: {self.evaluations} cases "
              f"({len(self.nontrivial_keys)} distinct non-trivial), "
              f"{self.model_checked} model evaluations, theorems {discharged}/{obligations}, "
              f"{len(real)} property failures, {len(model)} model mismatches, "
              f"{wall:.1f}s -> exit {code}")
        return code


COMMON_ASSUMPTIONS = [
    "regular files only; a read is short only at end of file; files do not change during "
    "one operation",
    "CPython dict order, sorted(), str comparison = UTF-8 byte order, os.path, pyben: "
    "modelled, not verified",
]
ASSUMPTIONS = {}


def raised_in_repo(exc):
    """True when the exception was raised from (or passed through) code of the repository
    under test, i.e. it is behaviour of the implementation and not a harness bug."""
    tb = exc.__traceback__
    root = os.path.realpath(REPO) + os.sep
    while tb is not None:
        if os.path.realpath(tb.tb_frame.f_code.co_filename).startswith(root):
            return True
        tb = tb.tb_next
    return False


def guarded(run, case, fn, *args, **kw):
    """Run one case; an exception coming out of the implementation is a property failure
    (the properties promise results, not crashes); anything else is re-raised."""
    try:
        return fn(*args, **kw)
    except Exception as exc:  # noqa
        if raised_in_repo(exc) or type(exc).__name__ == "CliExit":
            run.fail("impl-vs-spec", case, {"raised": repr(exc)[:300]})
            return None
        raise


def corpus_cases(pid):
    """Minimised past failures (witnesses of repaired defects); every run replays them first."""
    d = os.path.join(VERIF, "corpus", pid)
    out = []
    if os.path.isdir(d):
        for fn in sorted(os.listdir(d)):
            if fn.endswith(".json"):
                out.append(json.load(open(os.path.join(d, fn)))["case"])
    return out


def shrink_case(case, still_fails, budget_s=20):
    """Greedy delta-debugging over the explicit parts of a case: drop files, drop damage
    operations, shorten file contents to the nearest smaller boundary class. `still_fails`
    re-runs the implementation against the oracle on a candidate case."""
    t0 = time.time()
    best = json.loads(json.dumps(case))

    def attempt(candidate):
        if time.time() - t0 > budget_s:
            return False
        try:
            return bool(still_fails(candidate))
        except Exception:
            return False
    changed = True
    while changed and time.time() - t0 < budget_s:
        changed = False
        for key in ("damage", "files"):
            items = best.get(key) or []
            i = 0
            while i < len(items) and len(items) > (1 if key == "files" else 0):
                cand = dict(best)
                cand[key] = items[:i] + items[i + 1:]
                if key == "files":
                    gone = items[i][0]
                    cand["damage"] = [d for d in best.get("damage", []) if d[1] != gone]
                    if "v1_order" in cand:
                        cand["v1_order"] = [r for r in cand["v1_order"] if r != gone]
                if attempt(cand):
                    best, items, changed = cand, cand[key], True
                else:
                    i += 1
        # shorten contents: r<seed>.<n> -> smaller n
        for idx, (rel, tok) in enumerate(list(best.get("files") or [])):
            if not tok.startswith("r") or "," in tok:
                continue
            seed_, n = tok[1:].split(".")
            n = int(n)
            for smaller in (0, 1, 16383, 16384, 16385, n // 2):
                if smaller >= n:
                    continue
                if any(d[1] == rel for d in best.get("damage", [])):
                    break
                cand = dict(best)
                cand["files"] = list(best["files"])
                cand["files"][idx] = [rel, f"r{seed_}.{smaller}"]
                if attempt(cand):
                    best, changed = cand, True
                    break
    return best

"""
Run ONE edit in a fresh interpreter with ONE injected fault (used by C17).

stdin: JSON {"metafile": path, "req": {...}, "mode": "none"|"kill"|"raise"|"kill-write"|
             "raise-write", "k": index of the mutating operation, "prefix": bytes written
             before the fault, "error": "perm"|"nospace"}
"readonly_dir": true adds a standing condition (no entry of the metafile's directory can be
created, removed or renamed; existing files stay writable) on top of the one injected fault.
Mutating operations are counted as the audit hook sees them (open for writing, rename,
remove, ...).  `kill` = the process dies (os._exit) just before operation k; `raise` = the
operation raises; `*-write` = the fault strikes inside the write of the encoded metafile after
`prefix` bytes reached the disk.  stdout: `OBS <json>`.
"""
import errno
import json
import os
import sys


def main():
    sys.path.insert(0, os.environ["VERIF_HOME"])
    spec = json.loads(sys.stdin.read())
    from harness import effects, impl
    from harness.common import use_repo
    use_repo()
    import pyben.api
    mode, k, prefix = spec["mode"], spec.get("k", 0), spec.get("prefix", 0)
    err = PermissionError(errno.EACCES, "injected") if spec.get("error", "perm") == "perm" \
        else OSError(errno.ENOSPC, "injected: no space left on device")
    count = [0]
    SANDBOX = os.path.dirname(os.path.abspath(spec["metafile"]))

    if spec.get("warmup"):
        # an earlier, successful and fault-free edit of ANOTHER metafile in this process (before
        # any fault is armed): what follows must not inherit anything from it
        import shutil as _sh
        twin = os.path.join(SANDBOX, "warmup-" + os.path.basename(spec["metafile"]))
        _sh.copy(spec["metafile"], twin)
        try:
            impl.edit(twin, {"comment": "warm-up"})
        except Exception:
            pass
        if os.path.lexists(twin):
            os.remove(twin)

    def on_event(tracer, rec):
        if rec[0] in ("chmod", "utime"):
            return
        if spec.get("readonly_dir") and rec[0] in ("create", "remove", "rmdir", "mkdir", "rename", "link",
                                                    "symlink", "move"):
            # a standing condition, not the injected fault: the user may not add, remove or
            # rename entries of the metafile's directory (existing files stay writable)
            raise PermissionError(errno.EACCES, "read-only directory (standing condition)")
        if mode in ("kill", "raise") and count[0] == k:
            count[0] += 1
            if mode == "kill":
                os._exit(37)
            raise err
        count[0] += 1

    import shutil
    shutil._USE_CP_SENDFILE = False      # copies go through file.write(), where faults can strike
    if spec.get("relative"):
        # the caller stands in the metafile's directory and names it by its bare file name
        os.chdir(os.path.dirname(spec["metafile"]))
        spec["metafile"] = os.path.basename(spec["metafile"])
    if spec.get("stale_part"):
        # (prepared BEFORE any fault is armed: the files below are written by this runner)
        # a leftover of an earlier run sits at '<metafile>.part': a regular file, a symbolic link
        # to the metafile itself, or a link to some other file; or a HARD link (a second name of
        # the same inode) of the metafile itself (a publisher that does link(tmp, final) +
        # unlink(tmp) and died in between, a `cp -l` snapshot) or of some other file
        part = spec["metafile"] + ".part"
        if spec["stale_part"] == "file":
            with open(part, "wb") as fd:
                fd.write(b"d4:infod4:name5:stalee")
        elif spec["stale_part"] == "link-to-metafile":
            os.symlink(os.path.basename(spec["metafile"]), part)
        elif spec["stale_part"] == "hardlink-to-metafile":
            # (of the file the metafile path leads to, when that path is itself a symbolic link)
            os.link(os.path.realpath(spec["metafile"]), part)
        else:
            other = spec["metafile"] + ".other"
            with open(other, "wb") as fd:
                fd.write(b"an unrelated file that must survive")
            if spec["stale_part"] == "hardlink-to-other":
                os.link(other, part)
            else:
                os.symlink(os.path.basename(other), part)
    if mode == "kill-after-replace":
        # the process dies the moment the rename has returned (nothing after it runs)
        real_replace, real_rename = os.replace, os.rename

        def dying(fn):
            def wrapper(*a, **kw):
                fn(*a, **kw)
                os._exit(37)
            return wrapper
        os.replace, os.rename = dying(real_replace), dying(real_rename)
        shutil.move = dying(shutil.move)
    if mode == "short-oswrite":
        real_write = os.write
        left = [prefix]

        def short_write(fd, data):
            # a legal short write: fewer bytes than asked for, no error (quota, signal, pipe)
            n = min(len(data), max(left[0], 1)) if left[0] >= 0 else len(data)
            left[0] = -1
            return real_write(fd, bytes(data)[:n])
        os.write = short_write
    if mode == "raise-close":
        # a buffered writer: write() only fills the buffer, the data reach the disk when the file
        # is closed - and that is where "no space left" strikes (after `prefix` bytes)
        real_open0 = open

        class Buffered:
            def __init__(self, fd):
                self.fd, self.buf = fd, b""

            def __enter__(self):
                return self

            def write(self, data):
                self.buf += bytes(data)
                return len(data)

            def flush(self):
                self.close()

            def fileno(self):
                return self.fd.fileno()

            def close(self):
                if self.fd.closed:
                    return
                self.fd.write(self.buf[:prefix])
                self.fd.flush()
                self.fd.close()
                raise err

            def __exit__(self, *a):
                self.close()
                return False

        def buffered_open(path, flags="r", *a, **kw):
            fd = real_open0(path, flags, *a, **kw)
            writing = isinstance(flags, str) and any(c in flags for c in "wa+x")
            inside = isinstance(path, (str, bytes, os.PathLike)) and \
                os.path.abspath(os.fspath(path)).startswith(SANDBOX)
            return Buffered(fd) if writing and inside else fd
        import builtins
        builtins.open = buffered_open
    if mode in ("kill-write", "raise-write"):
        real_open = open

        class Handle:
            def __init__(self, fd):
                self.fd = fd

            def __enter__(self):
                return self

            def __exit__(self, *a):
                self.fd.close()
                return False

            def write(self, data):
                self.fd.write(bytes(data)[:prefix])
                self.fd.flush()
                os.fsync(self.fd.fileno())
                if mode == "kill-write":
                    os._exit(37)
                raise err

        def fake_open(path, flags="r", *a, **kw):
            fd = real_open(path, flags, *a, **kw)
            writing = isinstance(flags, str) and any(c in flags for c in "wa+x")
            inside = isinstance(path, (str, bytes, os.PathLike)) and \
                os.path.abspath(os.fspath(path)).startswith(SANDBOX)
            return Handle(fd) if writing and inside else fd
        import builtins
        builtins.open = fake_open      # every module that writes through open() is covered
    def do_edit():
        if spec.get("route") == "interactive":
            # the interactive editor: choose property 1 (comment), type the value, DONE
            import builtins as _bi
            from harness.common import quiet
            from torrentfile import interactive
            answers = iter(["1", spec["req"]["comment"], "done"])
            old_input, _bi.input = _bi.input, (lambda *_a: next(answers))
            try:
                with quiet():
                    interactive.InteractiveEditor(spec["metafile"]).edit_props()
            finally:
                _bi.input = old_input
        else:
            impl.edit(spec["metafile"], spec["req"])
    raised = None
    with effects.traced(on_event=on_event) as tr:
        try:
            do_edit()
        except BaseException as exc:  # noqa
            raised = type(exc).__name__
    sys.__stdout__.write("\nOBS " + json.dumps({"raised": raised,
                                                "events": [list(e) for e in tr.mutating()]}) + "\n")


if __name__ == "__main__":
    main()

"""
Operations used by the history / effect properties (C09, C17, C18): one JSON-able
operation -> one JSON-able observable, with all paths relative to the current directory,
so that the same operation can be executed in this process and in a fresh interpreter.
`python -m harness.ops` reads one operation from stdin, executes it in the current
directory and prints the observable (used as the fresh-interpreter reference).
"""
import json
import os
import sys


CHECKERS = {}


CREATORS = {}


def perform(op):
    from harness import impl
    from harness.common import snapshot
    kind = op["op"]
    try:
        if kind == "create":
            impl.pin_clock(1_700_000_000)
            if op.get("interactive"):
                # the interactive front end: answers typed at its prompts, in order
                import builtins
                from harness.common import quiet
                from torrentfile import interactive
                answers = iter(op["answers"])
                old_input = builtins.input
                builtins.input = lambda *_a: next(answers)
                try:
                    with quiet():
                        creator = interactive.create_torrent()
                finally:
                    builtins.input = old_input
                out = str(creator.outfile)
                return {"raw": open(out, "rb").read().hex(), "out": os.path.relpath(out)}
            if op.get("config"):
                # the configuration file route (`create --config --config-path <ini>`)
                ini = op["out"] + ".ini"
                with open(ini, "w") as fd:
                    fd.write("[config]\n" + "".join(f"{k} = {v}\n" for k, v in op["config"].items()))
                ver = {"v1": "1", "a2": "2", "a3": "3"}[op["kind"]]
                impl.cli(op.get("flags", []) + ["create", "--prog", "0", "--config", "--config-path", ini,
                                                "--meta-version", ver, "-o", op["out"], op["path"]])
                os.remove(ini)
                return {"raw": open(op["out"], "rb").read().hex()}
            if op.get("cli"):
                ver = {"v1": "1", "a2": "2", "a3": "3"}[op["kind"]]
                plarg = ["--piece-length", str(op["pl"])] if op.get("pl") else []
                impl.cli(op.get("flags", []) + ["create", "--prog", "0"] + plarg +
                         ["--meta-version", ver, "-o", op["out"], op["path"]])
                raw = open(op["out"], "rb").read()
            elif op.get("reuse"):
                # a long-lived caller keeps its creator object and asks it to assemble and
                # write again later (the payload may have changed meanwhile); a fresh
                # interpreter necessarily builds a new object
                from harness.common import quiet
                key = (op["reuse"], op["kind"], os.path.abspath(op["path"]), op.get("pl"))
                with quiet():
                    if key not in CREATORS:
                        cls, extra = impl.creator(op["kind"])
                        args = dict(path=op["path"], outfile=op["out"], progress=0, **extra)
                        if op.get("pl"):
                            args["piece_length"] = op["pl"]
                        CREATORS[key] = cls(**args)
                        CREATORS[key].write()
                    else:
                        CREATORS[key].assemble()
                        CREATORS[key].write(op["out"])
                raw = open(op["out"], "rb").read()
            else:
                raw = impl.create(op["kind"], op["path"], op["out"], piece_length=op.get("pl"),
                                  **op.get("opts", {}))
            return {"raw": raw.hex()}
        if kind == "edit":
            if op.get("cli"):
                argv = op.get("flags", []) + ["edit", op["meta"]]
                for key, flag in (("announce", "--tracker"), ("comment", "--comment"),
                                  ("source", "--source")):
                    if op["req"].get(key) is not None:
                        val = op["req"][key]
                        argv += [flag] + (val if isinstance(val, list) else [val])
                impl.cli(argv)
            else:
                impl.edit(op["meta"], dict(op["req"]))
            return {"raw": open(op["meta"], "rb").read().hex()}
        if kind == "create-abort":
            # a creation that fails half way (the hash callback raises), as a cancelled GUI
            # job or an I/O error would; what matters is what the NEXT operations do
            from harness.common import quiet
            cls, extra = impl.creator(op["kind"])
            calls = [0]

            def cancel(*_a, **_k):
                calls[0] += 1
                if calls[0] >= op.get("after", 2):
                    raise KeyboardInterrupt("cancelled")
            hashers = {"v1": "Hasher", "v2": "HasherV2", "hy": "HasherHybrid", "a2": "FileHasher",
                       "a3": "FileHasher"}
            import torrentfile.hasher as th
            hcls = getattr(th, hashers[op["kind"]])
            old_cb = hcls.__dict__.get("cb")
            hcls.cb = staticmethod(cancel)
            try:
                with quiet():
                    cls(path=op["path"], outfile=op["out"], progress=0, piece_length=op.get("pl"), **extra)
                return {"aborted": False}
            except BaseException as exc:  # noqa
                return {"aborted": type(exc).__name__}
            finally:
                if old_cb is None:
                    try:
                        del hcls.cb
                    except AttributeError:
                        pass
                else:
                    hcls.cb = old_cb
        if kind == "recheck":
            if op.get("reuse"):
                # a long-lived caller keeps its Checker object and asks again later; a fresh
                # interpreter necessarily builds a new one
                from harness.common import quiet
                from torrentfile.recheck import Checker
                # ... for the same torrent: an object built from a metafile that has since been
                # replaced by a different torrent is not "the same question asked again"
                import hashlib
                from harness import refspec
                raw = open(op["meta"], "rb").read()
                key = (os.path.abspath(op["meta"]), os.path.abspath(op["content"]),
                       hashlib.sha1(refspec.info_span(raw) or raw).hexdigest())
                with quiet():
                    if key not in CHECKERS:
                        CHECKERS[key] = Checker(op["meta"], op["content"])
                    return {"result": repr(CHECKERS[key].results())}
            return {"result": repr(impl.recheck_result(op["meta"], op["content"]))}
        if kind == "rebuild":
            count = impl.rebuild(op["metas"], op["contents"], op["dest"])
            snap = snapshot(op["dest"]) if os.path.isdir(op["dest"]) else {}
            return {"count": count, "dest": {k: list(v) for k, v in sorted(snap.items())}}
        if kind == "magnet":
            return {"uri": impl.magnet(op["meta"], op.get("version", 0))}
        raise ValueError(kind)
    except Exception as exc:  # the observable of a failing operation is its error kind
        return {"raised": type(exc).__name__}


def apply_fs(op, base):
    """Filesystem mutation applied by the harness itself (to both worlds)."""
    from harness.props.creation import blob_from_token
    path = os.path.join(base, *op["rel"].split("/"))
    k = op["kind"]
    if k in ("add", "rewrite"):
        os.makedirs(os.path.dirname(path), exist_ok=True)
        with open(path, "wb") as fd:
            fd.write(blob_from_token(op["data"]).bytes())
    elif k == "delete":
        if os.path.lexists(path):
            os.remove(path)
    elif k == "grow":
        with open(path, "ab") as fd:
            fd.write(blob_from_token(op["data"]).bytes())
    elif k == "rewrite-same-size":
        if not os.path.isfile(path):
            return
        size = os.path.getsize(path)
        from harness.common import Blob
        with open(path, "wb") as fd:
            fd.write(Blob.rand(1000 + op["seed"], size).bytes())
    elif k == "resize":
        os.makedirs(os.path.dirname(path), exist_ok=True)
        with open(path, "ab") as fd:
            fd.truncate(op["size"])
    elif k == "shrink":
        if not os.path.isfile(path):
            return          # (an earlier operation should have produced it; that failure is reported there)
        size = os.path.getsize(path)
        with open(path, "r+b") as fd:
            fd.truncate(max(0, size - op["by"]))


if __name__ == "__main__":
    sys.path.insert(0, os.environ["VERIF_HOME"])
    op = json.loads(sys.stdin.read())
    real = sys.stdout
    obs = perform(op)
    real.write("\nOBS " + json.dumps(obs) + "\n")

import sys, os, random, subprocess, io, contextlib, tempfile, configparser
sys.path.insert(0,'/repo')
from torrentfile import cli, commands
from torrentfile.utils import normalize_piece_length as npl, PieceLengthValueError
sys.set_int_max_str_digits(0) if False else None
drv = subprocess.Popen(['/verif/lean/.lake/build/bin/tvdriver'], stdin=subprocess.PIPE, stdout=subprocess.PIPE, text=True)
def ask(line):
    drv.stdin.write(line+'\n'); drv.stdin.flush(); return drv.stdout.readline().strip()
hx=lambda s: s.encode().hex() if s else '-'
commands.create=lambda args: args
def real(toks):
    try:
        with contextlib.redirect_stderr(io.StringIO()), contextlib.redirect_stdout(io.StringIO()):
            ns=cli.execute(["create"]+toks)
        return vars(ns)
    except SystemExit: return None
def v(x):
    if x is None: return "N"
    if x is True: return "T"
    if x is False: return "F"
    if isinstance(x,str): return "s:"+hx(x)
    if isinstance(x,list): return "l:"+",".join(hx(i) for i in x)
    raise Exception(x)
def render(kw):
    g=lambda k,d=None: kw.get(k,d)
    return ("kw path=%s content=%s announce=%s url_list=%s httpseeds=%s private=%s source=%s comment=%s piece_length=%s meta_version=%s outfile=%s align=%s" %
      tuple(v(x) for x in (g("path"),g("content"),g("announce"),g("url_list"),g("httpseeds"),g("private",False),g("source"),g("comment"),g("piece_length"),g("meta_version"),g("outfile"),g("align",False))))
# 0. no non-ASCII string lower-cases into one of the words: check per code point
letters=set("trueyesonfalsoff10")
bad_cp=[c for c in range(128,0x110000) if any(ch in letters for ch in chr(c).lower()) and all(ord(ch)<128 for ch in chr(c).lower())]
print("non-ASCII code points lowering to pure ASCII word letters:",[hex(c) for c in bad_cp])
d=os.path.realpath(tempfile.mkdtemp()); os.chdir(d); open("p","wb").write(b"x")
random.seed(11)
words=["true","yes","on","1","false","no","off","0"]
def mix(w): return "".join(ch.upper() if random.random()<0.5 else ch for ch in w)
boolkeys=["private","align","magnet","cwd"]
cases=[]
# systematic: each key x each word x 4 casings x with/without flag on cli
for k in boolkeys:
    for w in words:
        for cs in (w, w.upper(), mix(w), mix(w)):
            for toks in (["p"],["p","--private","--align"]):
                cases.append(([(k,cs)],toks))
other=["","maybe","2","tru","yess","o n","on ","  on","true%","%","%%","%(x)s","100% %(here)s %%d","a%20b","http://h/%7Euser\n  http://h/x%%y","yes\n  no"]
keys=["private","align","magnet","cwd","comment","source","announce","tracker","web-seed","http-seed","out","piece-length","meta-version","Private","ALIGN","url-list"]
for _ in range(700):
    n=random.randint(1,5); it=[];seen=set()
    for _ in range(n):
        k=random.choice(keys)
        if k.lower() in seen: continue
        seen.add(k.lower())
        val=random.choice(other+[mix(w) for w in words]+[mix(w)+random.choice([" ","\t",""]) for w in words])
        it.append((k,val))
    cases.append((it,random.choice([["p"],["-a","u","p","--private"],["p","--align","-c","50%"]])))
bad=0;n=0
for it,toks in cases:
    with open("t.ini","w") as f:
        f.write("[config]\n")
        for a,b in it: f.write(f"{a} = {b}\n")
    kw=real(toks)
    try:
        commands.parse_config_file("t.ini",kw); want=render(kw)
    except Exception as e: want="EXC "+type(e).__name__
    cp=configparser.ConfigParser(interpolation=None); cp.read("t.ini"); deliv=list(cp["config"].items())
    got=ask("parseconfig "+" ".join(f"{hx(a)}={hx(b)}" for a,b in deliv)+" @ "+" ".join(hx(x) for x in toks))
    n+=1
    if got!=want:
        bad+=1
        if bad<8: print("CFG MISMATCH",deliv,toks,"\n real ",want,"\n model",got)
print("config cases",n,"mismatches",bad)
# huge ints
bad=0;n=0
ints=[10**5000,10**4300,10**4299,-10**5000,2**20000,2**20000+1,2**20000-1,2**14285,2**14286,2**14287, 3*2**20000, 10**4300-1, -(2**20000)]
ints+=[random.getrandbits(random.randint(14000,30000)) for _ in range(40)]+[2**random.randint(14000,40000) for _ in range(40)]
for i in ints:
    try: r=npl(i); want="ok"
    except PieceLengthValueError: want="err"; r=None
    except Exception as e: want="EXC "+type(e).__name__; r=None
    sys.set_int_max_str_digits(0); s=str(i); sys.set_int_max_str_digits(4300)
    got=ask("npl i "+s); spec=ask("nplspec i "+s)
    if want=="ok":
        sys.set_int_max_str_digits(0); want="ok "+str(r); sys.set_int_max_str_digits(4300)
    n+=1
    if got!=want or spec!=want: bad+=1; print("INT MISMATCH bits",i.bit_length(),want[:30],got[:30],spec[:30])
print("huge int cases",n,"mismatches",bad)

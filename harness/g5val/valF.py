import sys, os, tempfile, builtins, subprocess
sys.path.insert(0,'/repo')
import pyben
from torrentfile.edit import edit_torrent
drv = subprocess.Popen(['/verif/lean/.lake/build/bin/tvdriver'], stdin=subprocess.PIPE, stdout=subprocess.PIPE, text=True)
def ask(line):
    drv.stdin.write(line+'\n'); drv.stdin.flush(); return drv.stdout.readline().strip()
d=tempfile.mkdtemp(); mf=os.path.join(d,"a.torrent"); part=mf+".part"
meta={"announce":"http://x","info":{"name":"n","length":5,"piece length":16384,"pieces":b"12345678901234567890"}}
LEFT=b"leftover-bytes"
def reset(left):
    for f in os.listdir(d): os.remove(os.path.join(d,f))
    pyben.dump(meta,mf); open(os.path.join(d,"x"),"wb").write(b"bystander")
    if left is not None: open(part,"wb").write(left)
reset(None); old=open(mf,'rb').read(); edit_torrent(mf,{"comment":"hello"}); new=open(mf,'rb').read()
events=[]; on=[False]
def hook(ev,args):
    if not on[0]: return
    if ev=="open" and isinstance(args[0],str) and args[0].startswith(d):
        m=args[1]; events.append(("read" if m in("r","rb") else "create",os.path.basename(args[0])))
    elif ev=="os.remove": events.append(("remove",os.path.basename(str(args[0]))))
    elif ev=="os.rename": events.append(("replace",os.path.basename(str(args[0])),os.path.basename(str(args[1]))))
sys.addaudithook(hook)
bad=0;n=0
def model_ops(enc,left):
    out=ask(f"ops editl {b'a.torrent'.hex()} {enc} {left}")
    return [tuple([t.split(':')[0]]+[bytes.fromhex(x).decode() for x in t.split(':')[1:]]) for t in out.split() if not t.startswith("write")]
for left in (None,LEFT,b""):
    for req,enc in (({"comment":"hello"},1),({"comment":1.5},0)):
        reset(left); events.clear(); on[0]=True
        try: edit_torrent(mf,dict(req))
        except Exception: pass
        on[0]=False
        m=model_ops(enc,0 if left is None else 1); n+=1
        if list(events)!=m: bad+=1; print("TRACE MISMATCH",left,enc,events,m)
real_open=builtins.open; real_replace=os.replace; real_remove=os.remove
class ShortWriter:
    def __init__(s,f,k): s.f=f; s.k=k
    def write(s,b): s.f.write(b[:s.k]); s.f.flush(); raise OSError(28,"ENOSPC")
    def __enter__(s): return s
    def __exit__(s,*a): s.f.close(); return False
def view():
    c=open(mf,'rb').read() if os.path.exists(mf) else None
    a="missing" if c is None else "old" if c==old else "new" if c==new else "other:"+c.hex()
    b="part:absent" if not os.path.exists(part) else "part:"+(open(part,'rb').read().hex() or "-")
    return f"{a} {b} by:{'ok' if open(os.path.join(d,'x'),'rb').read()==b'bystander' else 'changed'}"
def run(left,op,k,req):
    # op names: load, rmleft, open, write, replace, none
    reset(left); state={"rm":0}
    def fopen(p,mode='r',*a,**kw):
        if str(p)==mf and 'r' in mode and op=="load": raise PermissionError("read")
        if str(p)==part and 'w' in mode:
            if op=="open": raise PermissionError("open")
            f=real_open(p,mode,*a,**kw)
            return ShortWriter(f,k) if op=="write" else f
        return real_open(p,mode,*a,**kw)
    def frepl(a,b):
        if op=="replace": raise PermissionError("replace")
        return real_replace(a,b)
    def frem(p):
        state["rm"]+=1
        if op=="rmleft" and state["rm"]==1: raise PermissionError("remove")
        return real_remove(p)
    builtins.open=fopen; os.replace=frepl; os.remove=frem
    try:
        try: edit_torrent(mf,dict(req))
        except Exception: pass
    finally: builtins.open=real_open; os.replace=real_replace; os.remove=real_remove
    return view()
hx=lambda b: b.hex() if b else "-"
for left in (None,LEFT,b""):
    idx = {"load":0,"rmleft":1,"open":2,"write":3,"replace":4,"none":9} if left is not None else {"load":0,"open":1,"write":2,"replace":3,"none":9}
    for op,i in idx.items():
        for k in ([0,3,len(new)] if op=="write" else [0]):
            for req,encarg in (({"comment":"hello"},hx(new)),({"comment":1.5},"none")):
                if encarg=="none" and op in("open","write","replace"): continue
                want=run(left,op,k,req)
                got=ask(f"editerrorl {i} {k} {hx(old)} {encarg} {'none' if left is None else hx(left)}")
                n+=1
                if got!=want: bad+=1; print("FAULT MISMATCH",left,op,k,encarg,"\n real ",want,"\n model",got)
print("leftover cases",n,"mismatches",bad)

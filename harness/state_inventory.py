"""
Static inventory of the process-lifetime state in torrentfile's source (C09).

The Lean model `TorrentVerif.Proc` (Model/Process.lean) claims to list ALL state that survives
an operation inside one interpreter; `history_independent` is a frame argument over exactly
those fields.  This scan ties that claim to the source: every place where the package keeps
something beyond a call — caching decorators, module-level or class-level containers that are
mutated, assignments to class attributes (`cls.x = …`, `SomeClass.x = …`), `global`
rebinding, mutable default arguments, writes to `os.environ` — must map to a field of `Proc`.
An item without a field means the model no longer covers the code's process state (a broken
correspondence, not by itself a violation: the check then searches histories for a result
that depends on the past).
"""
import ast
import os

MUTATORS = {"append", "add", "update", "setdefault", "pop", "popitem", "clear", "extend", "insert",
            "remove", "discard", "appendleft"}
CACHE_DECOS = {"Memo", "lru_cache", "cache", "cached_property", "memoize", "memoized"}
CONTAINERS = ("list", "dict", "set", "defaultdict", "OrderedDict", "deque", "bytearray", "Counter")

# inventory item -> field of TorrentVerif.Proc that models it
PROC_FIELDS = {
    "recheck: class attribute Checker._hook is assigned": "checkerHook",
    "mixins: class attribute CbMixin.cb is assigned": "callbacks",
    "utils: os.environ is written": "debug",
}


def _is_container(v):
    if isinstance(v, (ast.List, ast.Dict, ast.Set, ast.ListComp, ast.DictComp, ast.SetComp)):
        return True
    return isinstance(v, ast.Call) and getattr(v.func, "id", getattr(v.func, "attr", "")) in CONTAINERS


def _deco_name(d):
    if isinstance(d, ast.Call):
        d = d.func
    return d.id if isinstance(d, ast.Name) else d.attr if isinstance(d, ast.Attribute) else ""


def _base(n):
    return n.id if isinstance(n, ast.Name) else n.attr if isinstance(n, ast.Attribute) else None


def inventory(repo):
    pkg = os.path.join(repo, "torrentfile")
    trees = {}
    for fn in sorted(os.listdir(pkg)):
        if fn.endswith(".py"):
            with open(os.path.join(pkg, fn), encoding="utf8") as fd:
                trees[fn[:-3]] = ast.parse(fd.read())
    classes = {n.name for t in trees.values() for n in ast.walk(t) if isinstance(n, ast.ClassDef)}
    inv = set()
    for mod, tree in trees.items():
        containers = {}
        for node in tree.body:
            if isinstance(node, (ast.Assign, ast.AnnAssign)) and node.value is not None and _is_container(node.value):
                for t in (node.targets if isinstance(node, ast.Assign) else [node.target]):
                    if isinstance(t, ast.Name):
                        containers[t.id] = f"module-level {t.id}"
            if isinstance(node, ast.ClassDef):
                for sub in node.body:
                    if isinstance(sub, (ast.Assign, ast.AnnAssign)) and sub.value is not None and _is_container(sub.value):
                        for t in (sub.targets if isinstance(sub, ast.Assign) else [sub.target]):
                            if isinstance(t, ast.Name):
                                containers[t.id] = f"class-level {node.name}.{t.id}"
        for cls in (n for n in ast.walk(tree) if isinstance(n, ast.ClassDef)):
            for node in ast.walk(cls):
                if isinstance(node, (ast.Assign, ast.AugAssign)):
                    for t in (node.targets if isinstance(node, ast.Assign) else [node.target]):
                        if isinstance(t, ast.Attribute) and isinstance(t.value, ast.Name) and \
                                (t.value.id == "cls" or t.value.id in classes):
                            owner = cls.name if t.value.id == "cls" else t.value.id
                            inv.add(f"{mod}: class attribute {owner}.{t.attr} is assigned")
                if isinstance(node, ast.Call) and _base(node.func) == "setattr" and node.args and \
                        isinstance(node.args[0], ast.Name) and (node.args[0].id == "cls" or node.args[0].id in classes):
                    inv.add(f"{mod}: setattr on class in {cls.name}")
        for node in ast.walk(tree):
            if isinstance(node, (ast.FunctionDef, ast.AsyncFunctionDef, ast.ClassDef)):
                for d in node.decorator_list:
                    if _deco_name(d) in CACHE_DECOS:
                        inv.add(f"{mod}: caching decorator @{_deco_name(d)} on {node.name}")
            if isinstance(node, (ast.FunctionDef, ast.AsyncFunctionDef)):
                for d in node.args.defaults + [k for k in node.args.kw_defaults if k]:
                    if _is_container(d):
                        inv.add(f"{mod}: mutable default argument in {node.name}")
                if isinstance(node, ast.FunctionDef) and not isinstance(node, ast.ClassDef):
                    for sub in ast.walk(node):
                        if isinstance(sub, (ast.Assign, ast.AugAssign)):
                            for t in (sub.targets if isinstance(sub, ast.Assign) else [sub.target]):
                                if isinstance(t, ast.Attribute) and isinstance(t.value, ast.Name) and \
                                        t.value.id in classes and f"{mod}: class attribute {t.value.id}.{t.attr} is assigned" not in inv:
                                    inv.add(f"{mod}: class attribute {t.value.id}.{t.attr} is assigned")
            if isinstance(node, ast.Global):
                inv.add(f"{mod}: global {','.join(sorted(node.names))}")
            if isinstance(node, ast.Call) and isinstance(node.func, ast.Attribute) and node.func.attr in MUTATORS \
                    and _base(node.func.value) in containers:
                inv.add(f"{mod}: {containers[_base(node.func.value)]} is mutated")
            if isinstance(node, (ast.Assign, ast.AugAssign, ast.Delete)):
                for t in (node.targets if isinstance(node, (ast.Assign, ast.Delete)) else [node.target]):
                    if isinstance(t, ast.Subscript):
                        if _base(t.value) in containers:
                            inv.add(f"{mod}: {containers[_base(t.value)]} is mutated")
                        if isinstance(t.value, ast.Attribute) and t.value.attr == "environ":
                            inv.add(f"{mod}: os.environ is written")
    return sorted(inv)


def unmodelled(repo):
    return [item for item in inventory(repo) if item not in PROC_FIELDS]


if __name__ == "__main__":
    import sys
    for item in inventory(sys.argv[1] if len(sys.argv) > 1 else "/repo"):
        print(("      " if item in PROC_FIELDS else "NEW   ") + item)

#!/venv/bin/python
"""
Confirm a seeded change and run the checks against it.

  tools/seeded.py confirm /tmp/mut/out/C01-m1     # demo passes on /repo, fails on the patched
                                                  # tree, unedited suite passes on the patched tree;
                                                  # then copies it to seeded/C01-m1/
  tools/seeded.py run seeded/C01-m1 [--tier quick] [--props C01,C08]
                                                  # applies the patch in a scratch worktree and runs
                                                  # the check(s) against it (VERIF_REPO), reports
Scratch worktrees live under /tmp and are removed afterwards. /repo itself is never modified.
"""
import json
import os
import shutil
import subprocess
import sys
import tempfile

VERIF = os.path.dirname(os.path.dirname(os.path.abspath(__file__)))
PY = "/venv/bin/python"


def worktree(patch):
    d = tempfile.mkdtemp(prefix="seeded-", dir="/tmp")
    os.rmdir(d)
    subprocess.run(["git", "-C", "/repo", "worktree", "add", "-q", "--detach", d, "HEAD"], check=True)
    r = subprocess.run(["git", "-C", d, "apply", os.path.abspath(patch)], capture_output=True, text=True)
    if r.returncode:
        drop(d)
        raise SystemExit(f"patch does not apply: {r.stderr}")
    return d


def drop(d):
    subprocess.run(["git", "-C", "/repo", "worktree", "remove", "--force", d], capture_output=True)
    shutil.rmtree(d, ignore_errors=True)


def demo(src, tree):
    r = subprocess.run([PY, os.path.join(src, "demo.py")], capture_output=True, text=True,
                       env=dict(os.environ, PYTHONPATH=tree), cwd=tempfile.gettempdir(), timeout=600)
    return r.returncode, (r.stdout + r.stderr)[-300:]


def confirm(src):
    name = os.path.basename(src.rstrip("/"))
    wt = worktree(os.path.join(src, "patch.diff"))
    try:
        rc0, out0 = demo(src, "/repo")
        rc1, out1 = demo(src, wt)
        home = os.path.join(wt, ".home")
        os.makedirs(home, exist_ok=True)
        t = subprocess.run([PY, "-m", "pytest", "-q", "-p", "no:cacheprovider", "-x"], cwd=wt,
                           capture_output=True, text=True,
                           env=dict(os.environ, PYTHONPATH=wt, HOME=home))
        suite = t.stdout.strip().splitlines()[-1] if t.stdout.strip() else t.stderr[-200:]
    finally:
        drop(wt)
    ok = rc0 == 0 and rc1 != 0 and " passed" in suite and "failed" not in suite
    print(json.dumps({"name": name, "demo_on_repo": rc0, "demo_on_patched": rc1, "suite": suite,
                      "confirmed": ok}))
    if ok:
        dst = os.path.join(VERIF, "seeded", name)
        os.makedirs(dst, exist_ok=True)
        for f in ("patch.diff", "demo.py", "meta.json"):
            shutil.copy(os.path.join(src, f), os.path.join(dst, f))
        meta = json.load(open(os.path.join(dst, "meta.json")))
        meta["confirmed_by_me"] = {"demo_on_repo": "exit 0", "demo_on_patched": f"exit {rc1}",
                                   "suite_on_patched": suite}
        json.dump(meta, open(os.path.join(dst, "meta.json"), "w"), indent=1)
    return ok


def run(src, tier="quick", props=None):
    meta = json.load(open(os.path.join(src, "meta.json")))
    props = props or [meta["property"]]
    wt = worktree(os.path.join(src, "patch.diff"))
    res = {}
    try:
        for pid in props:
            r = subprocess.run([os.path.join(VERIF, "check"), pid, "--tier", tier],
                               capture_output=True, text=True,
                               env=dict(os.environ, VERIF_REPO=wt, VERIF_EVIDENCE_SUFFIX=".seeded"))
            lines = [l for l in r.stdout.splitlines() if l.startswith(("VIOLATION", "MACHINERY"))]
            res[pid] = {"exit": r.returncode, "lines": lines[:2]}
            if r.returncode == 2:      # machinery failure: keep the reason
                res[pid]["stderr"] = (r.stdout[-300:] + " | " + r.stderr[-1200:])
    finally:
        drop(wt)
    print(json.dumps({"name": os.path.basename(src.rstrip("/")), "results": res}))
    return res


if __name__ == "__main__":
    cmd, src = sys.argv[1], sys.argv[2]
    if cmd == "confirm":
        sys.exit(0 if confirm(src) else 1)
    tier = "quick"
    props = None
    for i, a in enumerate(sys.argv):
        if a == "--tier":
            tier = sys.argv[i + 1]
        if a == "--props":
            props = sys.argv[i + 1].split(",")
    run(src, tier, props)

#!/venv/bin/python
"""
Generic first-order mutants of torrentfile (classic mutation operators), as small textual
patches: comparison / arithmetic / boolean operator swaps, integer constants +-1, True/False,
negated conditions, deleted statements.  Used to measure the checks on changes nobody designed
for them:   tools/mutate.py gen <outdir> <count> [seed]   writes <outdir>/gNNN/patch.diff + meta.json
"""
import ast
import json
import os
import random
import subprocess
import sys
import tempfile

REPO = "/repo"
FILES = ["torrent.py", "hasher.py", "recheck.py", "rebuild.py", "edit.py", "commands.py", "utils.py", "cli.py"]
SKIP_FUNCS = {"__repr__", "__str__", "log_msg", "humanize_bytes", "get_progress_tracker", "green", "colored",
              "debug_is_on", "toggle_debug_mode", "activate_logger", "activate_quiet", "format_help",
              "_format_headers", "_format_text", "_join_parts", "_format_usage", "info", "showtext", "showcenter"}
CMP = {ast.Lt: "<=", ast.LtE: "<", ast.Gt: ">=", ast.GtE: ">", ast.Eq: "!=", ast.NotEq: "==",
       ast.In: "not in", ast.NotIn: "in", ast.Is: "is not", ast.IsNot: "is"}
CMP_TXT = {ast.Lt: "<", ast.LtE: "<=", ast.Gt: ">", ast.GtE: ">=", ast.Eq: "==", ast.NotEq: "!=",
           ast.In: "in", ast.NotIn: "not in", ast.Is: "is", ast.IsNot: "is not"}
BIN = {ast.Add: ("+", "-"), ast.Sub: ("-", "+"), ast.Mult: ("*", "//"), ast.FloorDiv: ("//", "*"),
       ast.Mod: ("%", "//"), ast.Div: ("/", "*")}


def candidates(path):
    src = open(path).read()
    lines = src.splitlines(keepends=True)
    tree = ast.parse(src)
    offs = [0]
    for ln in lines:
        offs.append(offs[-1] + len(ln))

    def pos(lineno, col):       # absolute offset (col is in utf8 bytes; files are ASCII enough)
        return offs[lineno - 1] + len(lines[lineno - 1].encode()[:col].decode())
    out = []
    skip = []
    for node in ast.walk(tree):
        if isinstance(node, (ast.FunctionDef, ast.AsyncFunctionDef)) and node.name in SKIP_FUNCS:
            skip.append((node.lineno, node.end_lineno))

    def skipped(n):
        return any(a <= n.lineno <= b for a, b in skip)
    for node in ast.walk(tree):
        if not hasattr(node, "lineno") or skipped(node):
            continue
        if isinstance(node, ast.Compare) and len(node.ops) == 1 and type(node.ops[0]) in CMP:
            a = pos(node.left.end_lineno, node.left.end_col_offset)
            b = pos(node.comparators[0].lineno, node.comparators[0].col_offset)
            seg = src[a:b]
            old = CMP_TXT[type(node.ops[0])]
            if seg.count(old) >= 1 and "\n" not in seg:
                i = seg.find(old)
                out.append(("cmp", node.lineno, a + i, a + i + len(old), CMP[type(node.ops[0])]))
        elif isinstance(node, ast.BinOp) and type(node.op) in BIN and \
                not isinstance(node.left, ast.Constant) or (isinstance(node, ast.BinOp) and type(node.op) in BIN
                                                             and not isinstance(getattr(node.left, "value", 0), str)):
            if isinstance(node, ast.BinOp) and type(node.op) in BIN:
                if isinstance(node.left, ast.Constant) and isinstance(node.left.value, (str, bytes)):
                    continue
                a = pos(node.left.end_lineno, node.left.end_col_offset)
                b = pos(node.right.lineno, node.right.col_offset)
                seg = src[a:b]
                old, new = BIN[type(node.op)]
                if seg.count(old) == 1 and "\n" not in seg:
                    i = seg.find(old)
                    out.append(("arith", node.lineno, a + i, a + i + len(old), new))
        elif isinstance(node, ast.BoolOp):
            a = pos(node.values[0].end_lineno, node.values[0].end_col_offset)
            b = pos(node.values[1].lineno, node.values[1].col_offset)
            seg = src[a:b]
            old, new = ("and", "or") if isinstance(node.op, ast.And) else ("or", "and")
            if seg.count(old) == 1:
                i = seg.find(old)
                out.append(("bool", node.lineno, a + i, a + i + len(old), new))
        elif isinstance(node, ast.Constant) and isinstance(node.value, bool):
            a, b = pos(node.lineno, node.col_offset), pos(node.end_lineno, node.end_col_offset)
            out.append(("const", node.lineno, a, b, "False" if node.value else "True"))
        elif isinstance(node, ast.Constant) and isinstance(node.value, int) and not isinstance(node.value, bool) \
                and abs(node.value) <= 64:
            a, b = pos(node.lineno, node.col_offset), pos(node.end_lineno, node.end_col_offset)
            if src[a:b].strip().lstrip("-").isdigit():
                out.append(("const", node.lineno, a, b, str(node.value + 1)))
                if node.value > 0:
                    out.append(("const", node.lineno, a, b, str(node.value - 1)))
        elif isinstance(node, ast.UnaryOp) and isinstance(node.op, ast.Not):
            a, b = pos(node.lineno, node.col_offset), pos(node.operand.lineno, node.operand.col_offset)
            if src[a:b].strip() == "not":
                out.append(("not", node.lineno, a, b, ""))
        elif isinstance(node, (ast.If, ast.While)) and not isinstance(node.test, ast.Constant):
            a, b = pos(node.test.lineno, node.test.col_offset), pos(node.test.end_lineno, node.test.end_col_offset)
            if "\n" not in src[a:b]:
                out.append(("negate", node.lineno, a, b, "not (" + src[a:b] + ")"))
        elif isinstance(node, (ast.Assign, ast.AugAssign, ast.Expr)) and node.lineno == node.end_lineno:
            if isinstance(node, ast.Expr) and isinstance(node.value, ast.Constant):
                continue        # docstring
            a, b = pos(node.lineno, node.col_offset), pos(node.end_lineno, node.end_col_offset)
            text = src[a:b]
            if "logger." in text or "log_msg" in text or "prog" in text.lower() or "print(" in text or "showtext" in text:
                continue
            out.append(("delete", node.lineno, a, b, "pass"))
    return src, out


def gen(outdir, count, seed):
    rng = random.Random(seed)
    pool = []
    for fn in FILES:
        path = os.path.join(REPO, "torrentfile", fn)
        src, cands = candidates(path)
        pool += [(fn, c) for c in cands]
    rng.shuffle(pool)
    os.makedirs(outdir, exist_ok=True)
    made = 0
    seen = set()
    for fn, (kind, lineno, a, b, new) in pool:
        if made >= count:
            break
        path = os.path.join(REPO, "torrentfile", fn)
        src = open(path).read()
        mutated = src[:a] + new + src[b:]
        if (fn, lineno, kind) in seen:
            continue
        try:
            compile(mutated, fn, "exec")
        except SyntaxError:
            continue
        seen.add((fn, lineno, kind))
        with tempfile.TemporaryDirectory() as td:
            os.makedirs(os.path.join(td, "a", "torrentfile"))
            os.makedirs(os.path.join(td, "b", "torrentfile"))
            open(os.path.join(td, "a", "torrentfile", fn), "w").write(src)
            open(os.path.join(td, "b", "torrentfile", fn), "w").write(mutated)
            diff = subprocess.run(["diff", "-u", f"a/torrentfile/{fn}", f"b/torrentfile/{fn}"], cwd=td,
                                  capture_output=True, text=True).stdout
        d = os.path.join(outdir, f"g{made:03d}")
        os.makedirs(d, exist_ok=True)
        open(os.path.join(d, "patch.diff"), "w").write(diff)
        json.dump({"file": fn, "line": lineno, "operator": kind, "old": src[a:b][:80], "new": new[:80],
                   "source_line": src.splitlines()[lineno - 1].strip()[:120]},
                  open(os.path.join(d, "meta.json"), "w"), indent=1)
        made += 1
    print(made, "mutants from a pool of", len(pool))


if __name__ == "__main__":
    if sys.argv[1] == "gen":
        gen(sys.argv[2], int(sys.argv[3]), int(sys.argv[4]) if len(sys.argv) > 4 else 1)

#!/venv/bin/python
"""Regenerate the generated sections of DESIGN.md (between the BEGIN/END GENERATED markers):
theorem inventory from build/audit.json, seeded-change matrix from seeded/MATRIX.json and
seeded/*/meta.json, repaired defects from known_findings.json."""
import json
import os
import re

HERE = os.path.dirname(os.path.dirname(os.path.abspath(__file__)))
audit = json.load(open(os.path.join(HERE, "build", "audit.json")))["decls"]
by = {}
for name, d in audit.items():
    if d["kind"] != "theorem":
        continue
    parts = name.split(".")
    by.setdefault(parts[2], []).append(parts[3])
out = ["<!-- BEGIN GENERATED -->",
       "## 13. What is proved, per property (generated from the axiom audit)", "",
       f"{sum(len(v) for v in by.values())} property theorems; every one depends only on "
       "`propext`, `Classical.choice`, `Quot.sound` (or fewer). Statements and doc comments: "
       "`lean/TorrentVerif/Props/Cxx.lean`.", ""]
for pid in sorted(by):
    out.append(f"* **{pid}** ({len(by[pid])}): " + ", ".join(f"`{t}`" for t in sorted(by[pid])))
gpath = os.path.join(HERE, "build", "gen_status.json")
if os.path.exists(gpath):
    gen = json.load(open(gpath))["status"]
    n = sum(len(v["theorems"]) for v in gen.values())
    out += ["", f"Translator tie (§6a): {n} further theorems about the definitions translated from "
            "/repo's current source (`lean/Gen/Tie/<function>.lean`; same axiom audit):", ""]
    for fn in sorted(gen):
        st = gen[fn]
        out.append(f"* `{fn}` (source digest {st['digest']}, tie "
                   f"{'checked' if st['ok'] else 'BROKEN: ' + st['stage']}): "
                   + ", ".join(f"`{t.replace('Gen.', '')}`" for t in st["theorems"]))
out += ["", "## 14. Seeded changes and which checks catch them (generated)", "",
        "Independent sub-agents, given only the text of one property and a scratch worktree, "
        "wrote changes to torrentfile that break the property while the unedited suite still "
        "passes, each with a demonstration. Every change below was re-confirmed (demonstration "
        "passes on /repo, fails on the patched tree; 1719 tests pass on the patched tree) and "
        "is kept in `seeded/<id>/` (patch.diff, demo.py, meta.json). `V` = the quick check "
        "reports a VIOLATION with a failing input, `M` = only the correspondence breaks "
        "(`no-failing-input-found`), `.` = silent. `tools/matrix.sh` regenerates the matrix.", ""]
mpath = os.path.join(HERE, "seeded", "MATRIX.json")
if os.path.exists(mpath):
    matrix = json.load(open(mpath))
    props = sorted({p for r in matrix.values() for p in r})
    out.append("| change | what it needs to manifest | caught by (quick tier) |")
    out.append("|---|---|---|")
    for name in sorted(matrix):
        meta_p = os.path.join(HERE, "seeded", name, "meta.json")
        needs = ""
        if os.path.exists(meta_p):
            m = json.load(open(meta_p))
            needs = (m.get("summary", "") + " — needs: " + m.get("needs", "")).replace("|", "/").replace("\n", " ")
            needs = needs[:330]
        caught = [p for p in props if matrix[name].get(p) == "V"]
        model = [p for p in props if matrix[name].get(p) == "M"]
        cell = ", ".join(caught) + (("; model-only: " + ", ".join(model)) if model else "")
        own = name.split("-")[0]
        if own not in caught and own in model:
            cell = "own check: correspondence only; " + cell
        elif own not in caught:
            cell = "**own check silent** " + cell
        out.append(f"| {name} | {needs} | {cell} |")
out += ["", "## 15. Defects repaired in /repo and known findings (generated from known_findings.json)", ""]
kf = json.load(open(os.path.join(HERE, "known_findings.json")))["findings"]
for f in kf:
    out.append(f"* `{f['id']}` [{f['status']}] {f['text']}")
out.append("<!-- END GENERATED -->")
text = open(os.path.join(HERE, "DESIGN.md")).read()
block = "\n".join(out)
if "<!-- BEGIN GENERATED -->" in text:
    text = re.sub(r"<!-- BEGIN GENERATED -->.*<!-- END GENERATED -->", lambda m: block, text, flags=re.S)
else:
    text = text.replace("## Appendix A.", block + "\n\n## Appendix A.", 1)
open(os.path.join(HERE, "DESIGN.md"), "w").write(text)
print("DESIGN.md updated:", sum(len(v) for v in by.values()), "theorems")

#!/bin/bash
# Run every check (quick by default) in parallel and print a one-line summary each.
cd "$(dirname "$0")/.."
tier=${1:-quick}
ls harness/props/c[0-9][0-9].py | sed 's/.*\/c\([0-9]*\)\.py/C\1/' | xargs -P ${PAR:-6} -I{} sh -c "./check {} --tier $tier 2>&1 | grep -E 'VIOLATION|MACHINERY|KNOWN|exit' | cut -c1-220"

#!/bin/bash
# Run every check (quick) against every seeded change; writes seeded/MATRIX.json
cd "$(dirname "$0")/.."
ALL=$(ls harness/props/c[0-9][0-9].py | sed 's/.*\/c\([0-9]*\)\.py/C\1/' | paste -sd,)
ls seeded | grep -v MATRIX | xargs -P ${PAR:-5} -I{} sh -c "VERIF_NO_WIDEN=1 tools/seeded.py run seeded/{} --props $ALL 2>/dev/null | tail -1" > /tmp/matrix.jsonl
/venv/bin/python - <<'P'
import json
rows={}
for l in open('/tmp/matrix.jsonl'):
    try: d=json.loads(l)
    except Exception: continue
    rows[d["name"]]={p:("V" if r["exit"]==1 and not any("no-failing" in x for x in r["lines"]) else "M" if r["exit"]==1 else "E" if r["exit"]==2 else ".") for p,r in d["results"].items()}
json.dump(rows,open('seeded/MATRIX.json','w'),indent=1,sort_keys=True)
props=sorted({p for r in rows.values() for p in r})
print("change   "+" ".join(p[1:] for p in props))
for n in sorted(rows): print(f"{n:8} "+"  ".join(rows[n].get(p,"?") for p in props))
P



# ---------------------------------------------------------------- demo
def main():
    from torrentfile.torrent import (TorrentFile, TorrentFileHybrid,
                                     TorrentFileV2)
    root = tempfile.mkdtemp(prefix="c13u1-")
    failures = []
    try:
        # a source tree as version control leaves it: place holders and
        # package markers are empty files, first, in the middle and last
        tree = {
            ".gitkeep": b"",
            "data/block.bin": os.urandom(2 * BLOCK),      # ends on a boundary
            "data/notes.txt": os.urandom(5000),
            "pkg/__init__.py": b"",
            "pkg/module.py": os.urandom(BLOCK + 123),
            "zz/.placeholder": b"",
        }
        content = os.path.join(root, "orig", "project")
        for rel, blob in tree.items():
            write(os.path.join(content, rel), blob)
        # intact copies scattered over two search directories, with decoys
        s1, s2 = os.path.join(root, "disk1"), os.path.join(root, "disk2")
        for num, (rel, blob) in enumerate(tree.items()):
            base = (s1, s2)[num % 2]
            write(os.path.join(base, "deep", "er", str(num),
                               os.path.basename(rel)), blob)
        write(os.path.join(s1, "decoy", "notes.txt"), os.urandom(5000))
        write(os.path.join(s2, "decoy", "module.py"), os.urandom(77))
        write(os.path.join(s2, "unrelated.dat"), os.urandom(100))
        for tag, cls in (("v1", TorrentFile), ("v2", TorrentFileV2),
                         ("hybrid", TorrentFileHybrid)):
            metafile = create(cls, content,
                              os.path.join(root, tag + ".torrent"), BLOCK)
            dest = os.path.join(root, "dest-" + tag)
            os.makedirs(dest)
            counted = rebuild([metafile], [s1, s2], dest)
            problems = verify(metafile, dest)
            for rel in tree:
                if not os.path.isfile(os.path.join(dest, "project", rel)):
                    problems.append("missing: project/" + rel)
            problems = sorted(set(problems))
            if problems:
                failures.append("%s: rebuilt tree is not complete: %s"
                                % (tag, ", ".join(problems)))
            if counted > files_present(dest):
                failures.append("%s: %d files counted, %d present"
                                % (tag, counted, files_present(dest)))
    finally:
        shutil.rmtree(root, ignore_errors=True)
    if failures:
        print("FAIL: intact copies of every file were available, but")
        for line in failures:
            print("  " + line)
        return 1
    print("PASS")
    return 0


if __name__ == "__main__":
    sys.exit(main())
